"""Drive the REAL search classes of ghedesigner.search_routines with a synthetic excess table
(no thermal simulation: microseconds per search) and format what they do in the line protocol of
lean/GHEVerif/Model/Search.lean, so that the two can be diffed.

`Bisection1D.__new__` + patched `calculate_excess` / `initialize_ghe`: the search code itself
(`search`, `search_successive`, the constructors' glue for 2D/ZD) is the unmodified implementation.
"""
from __future__ import annotations

import types

import core
import ghelib  # noqa: F401  (puts the repo on sys.path)


def exc_name(e: BaseException) -> str:
    if isinstance(e, ValueError):
        return "ValueError"
    return "raise " + type(e).__name__


def real_b1d(counts, elo, ehi, cap, cont, max_iter, min_h=60.0, max_h=135.0):
    """Run the real Bisection1D.search on candidate fields with `counts[i]` boreholes whose excess
    is elo[i] at min height and ehi[i] at max height.  Returns (outcome_string, trace_string, log)."""
    from ghedesigner.search_routines import Bisection1D

    b = Bisection1D.__new__(Bisection1D)
    n = len(counts)
    fields = [[(float(k), float(j)) for j in range(counts[k])] for k in range(n)]
    b.coordinates_domain = fields
    b.fieldDescriptors = [f"f{k}" for k in range(n)]
    b.sim_params = types.SimpleNamespace(max_boreholes=cap, min_height=min_h, max_height=max_h, continue_if_design_unmet=cont)
    b.disp = False
    b.max_iter = max_iter
    b.calculated_temperatures = {}
    b.searchTracker = []
    trace = []
    last_init = [None]

    def idx_of(coords):
        for i, c in enumerate(fields):
            if c is coords:
                return i
        raise AssertionError("unknown field object")

    def ce(coords, h, field_specifier="N/A"):
        k = idx_of(coords)
        trace.append((k, h))
        last_init[0] = (k, h)
        v = ehi[k] if h == max_h else elo[k]
        b.searchTracker.append([field_specifier, v])
        return v

    def init(coords, h, field_specifier="N/A"):
        last_init[0] = (idx_of(coords), h)

    b.calculate_excess = ce
    b.initialize_ghe = init
    try:
        with ghelib.quiet():
            key, coords = b.search()
        k, h = last_init[0]
        if fields[key] is coords and k == key:
            out = f"selected {key} {'H' if h == max_h else 'L'}"
        else:
            # the search returns field `key` but its exchanger (what the manager sizes and reports) was left on field `k`
            out = f"ghe-left-on-another-field returned={key} exchanger={k} {'H' if h == max_h else 'L'}"
    except Exception as e:  # noqa: BLE001
        out = exc_name(e)
    trs = " ".join(f"{i}:{'H' if h == max_h else 'L'}" for i, h in trace)
    return out, trs, dict(b.calculated_temperatures)


def check_b1d_exchanger(ctx, args, out_r):
    """The exchanger the search leaves behind must be the field it returns."""
    if isinstance(out_r, str) and out_r.startswith("ghe-left-on-another-field"):
        counts, elo, ehi, cap, cont, mi = args[:6]
        ctx.finding("search-leaves-another-field-in-the-exchanger", f"Bisection1D.search: {out_r} (counts {counts[:8]}{'…' if len(counts) > 8 else ''}, cap {cap}, continue {cont})",
                    {"counts": counts, "elo": elo, "ehi": ehi, "cap": cap, "cont": cont, "max_iter": mi, "real": out_r})


def model_line_b1d(counts, elo, ehi, cap, cont, max_iter, min_h=60.0, max_h=135.0):
    n = len(counts)
    parts = ["b1d", "-" if cap is None else str(cap), "1" if cont else "0", str(max_iter), core.rs(min_h), core.rs(max_h), str(n)]
    parts += [str(c) for c in counts] + [core.rs(v) for v in elo] + [core.rs(v) for v in ehi]
    return " ".join(parts)


def split_model(ans: str):
    """'selected 3 H bisection | 0:L 0:H …' -> ('selected 3 H', 'bisection', trace);
    nested: 'selected 1 3 H | …' -> ('selected 1 3 H', None, trace); solve_root: 'bracketed n/d'."""
    o, sep, tr = ans.partition(" | ")
    toks = o.split()
    if toks and toks[0] == "selected" and toks[-1] in ("bisection", "bracket0", "tooSmallCont", "tooBigCont"):
        return " ".join(toks[:-1]), toks[-1], tr.strip()
    return o.strip(), None, tr.strip()


# ----------------------------------------------------------------------------- nested searches
def _stub_init(self, coordinates_domain, field_descriptors, v_flow, borehole, bhe_type, fluid, pipe, grout, soil, sim_params,
               hourly_extraction_ground_loads, method=None, flow_type=None, max_iter=15, disp=False, search=True,
               field_type="N/A", load_years=None):
    """Stands in for Bisection1D.__init__ (which builds a real GHE): sets exactly the attributes the
    search code reads."""
    self.searchTracker = []
    self.sim_params = sim_params
    self.coordinates_domain = coordinates_domain
    self.fieldDescriptors = field_descriptors
    self.max_iter = max_iter
    self.disp = disp
    self.calculated_temperatures = {}
    self.load_years = load_years


class _FakeGHE:
    """`self.ghe` for BisectionZD: compute_g_functions() is a no-op, size() sets H from the oracle of the
    field that was initialised last."""

    def __init__(self, owner):
        self.owner = owner
        self.bhe = types.SimpleNamespace(b=types.SimpleNamespace(H=None))

    def compute_g_functions(self):
        pass

    def size(self, method=None):
        l, i = self.owner._last_init_pos
        self.bhe.b.H = self.owner._sz[l][i]


def _run_nested(cls_name, nc, elo, ehi, sz, cap, cont, max_iter, min_h=60.0, max_h=135.0):
    """nc[l][i] = borehole count; elo/ehi[l][i] = excess at min/max height; sz[l][i] = sized height."""
    from unittest import mock

    import ghedesigner.search_routines as sr

    fields = [[[(float(l), float(i), float(j)) for j in range(nc[l][i])] for i in range(len(nc[l]))] for l in range(len(nc))]
    descs = [[f"L{l}F{i}" for i in range(len(nc[l]))] for l in range(len(nc))]
    pos = {}
    for l, lst in enumerate(fields):
        for i, f in enumerate(lst):
            pos[id(f)] = (l, i)
    trace = []
    base = getattr(sr, cls_name)

    class Fake(base):
        def calculate_excess(self, coords, h, field_specifier="N/A"):
            l, i = pos[id(coords)]
            # which list is being searched: the outer domain reuses the same field objects
            trace.append((l, i, h))
            self._last_init_pos = (l, i)
            self._last_init_h = h
            return ehi[l][i] if h == max_h else elo[l][i]

        def initialize_ghe(self, coords, h, field_specifier="N/A"):
            self._last_init_pos = pos[id(coords)]
            self._last_init_h = h
            if cls_name == "BisectionZD":
                self.ghe = _FakeGHE(self)

        def _cur_list(self):
            for l, lst in enumerate(fields):
                if self.coordinates_domain is lst:
                    return l
            return -1

        def search(self):
            if not hasattr(self, "_outer"):
                self._outer = self.coordinates_domain
            return super().search()

    sim = types.SimpleNamespace(max_boreholes=cap, min_height=min_h, max_height=max_h, continue_if_design_unmet=cont)
    obj = None
    try:
        with mock.patch.object(sr.Bisection1D, "__init__", _stub_init), ghelib.quiet():
            Fake._sz = sz
            obj = Fake.__new__(Fake)
            obj._sz = sz
            obj.ghe = _FakeGHE(obj)
            obj.__init__(fields, descs, 0.5, None, None, None, None, None, None, sim, [], method=None, flow_type=None, max_iter=max_iter)
        l, i = obj._last_init_pos
        assert fields[l][obj.selection_key] is obj.selected_coordinates or cls_name == "BisectionZD", "selection mismatch"
        if cls_name == "BisectionZD":
            h = obj.ghe.bhe.b.H
            out = f"selected {l} {obj.selection_key} {core.rs(h)}"
        else:
            out = f"selected {l} {obj.selection_key} {'H' if obj._last_init_h == max_h else 'L'}"
    except AssertionError:
        raise
    except Exception as e:  # noqa: BLE001
        out = exc_name(e)
    trs = " ".join(f"{w}.{i}:{'H' if h == max_h else 'L'}" for w, i, h in trace)
    return out, trs


def real_b2d(nc, elo, ehi, cap, cont, max_iter):
    return _run_nested("Bisection2D", nc, elo, ehi, [[0.0] * len(x) for x in nc], cap, cont, max_iter)


def real_bzd(nc, elo, ehi, sz, cap, cont, max_iter):
    return _run_nested("BisectionZD", nc, elo, ehi, sz, cap, cont, max_iter)


def _flat(nc, *tables):
    parts = [str(len(nc))] + [str(len(x)) for x in nc]
    parts += [str(c) for lst in nc for c in lst]
    for t in tables:
        parts += [core.rs(v) for lst in t for v in lst]
    return parts


def model_line_b2d(nc, elo, ehi, cap, cont, max_iter, min_h=60.0, max_h=135.0):
    return " ".join(["b2d", "-" if cap is None else str(cap), "1" if cont else "0", str(max_iter), core.rs(min_h), core.rs(max_h)] + _flat(nc, elo, ehi))


def model_line_bzd(nc, elo, ehi, sz, cap, cont, max_iter, min_h=60.0, max_h=135.0):
    return " ".join(["bzd", "-" if cap is None else str(cap), "1" if cont else "0", str(max_iter), core.rs(min_h), core.rs(max_h)] + _flat(nc, elo, ehi, sz))


def nested_cases(rng, n):
    out = []
    vals = [-2.0, -1.0, 1.0, 2.0, 0.5, -0.5, 0.0]
    for t in range(n):
        nl = rng.randint(1, 5)
        nc, elo, ehi, sz = [], [], [], []
        mono = rng.random() < 0.6
        for l in range(nl):
            # real domains: the first inner list is at least as long as the outer domain (its
            # descriptor list is what the outer search of Bisection2D indexes)
            m = rng.randint(nl + 1, nl + 6) if l == 0 else rng.randint(1, 7)
            counts = sorted(rng.sample(range(1 + l, 40 + l), m))
            nc.append(counts)
            if mono:
                th = rng.randint(0, m)
                base = rng.uniform(0.5, 3.0)
                ehi.append([round((th - i - 0.5) * base + 0.001 * i + 0.0001 * l, 6) for i in range(m)])
                elo.append([round(v + 4.0, 6) for v in ehi[-1]])
            else:
                ehi.append([rng.choice(vals) + 0.001 * i for i in range(m)])
                elo.append([rng.choice(vals) for _ in range(m)])
            sz.append([round(rng.uniform(60.0, 135.0), 3) for _ in range(m)])
        cap = rng.choice([None, None, 5, 20, 100])
        cont = rng.random() < 0.4
        mi = rng.choice([15, 15, 2, 0])
        if t % 2 == 0:
            out.append(("b2d", (nc, elo, ehi, cap, cont, mi)))
        else:
            out.append(("bzd", (nc, elo, ehi, sz, cap, cont, mi)))
    return out


def check_nested_predicate(ctx, kind, args, out_r, tr_r):
    """C01/C02/C05 sentences on the real nested-search result."""
    if not out_r.startswith("selected"):
        zero = any(v == 0 for t in (args[1], args[2]) for lst in t for v in lst)
        if not (out_r == "ValueError" or (out_r.startswith("raise ZeroDivisionError") and zero)):
            ctx.finding(f"{kind}-exception-type", f"{kind} ended with {out_r}", {"kind": kind, "args": args, "real": out_r, "trace": tr_r})
        return
    nc, elo, ehi = args[0], args[1], args[2]
    cap, cont = (args[3], args[4]) if kind == "b2d" else (args[4], args[5])
    _, l, k, _h = out_r.split()
    l, k = int(l), int(k)
    if cap is not None and nc[l][k] >= cap and sorted(nc[l]) == nc[l]:
        ctx.finding(f"{kind}-cap", f"{kind} returned a field with {nc[l][k]} boreholes, cap {cap}", {"kind": kind, "args": args, "real": out_r})
    if not cont and ehi[l][k] > 0 and not (k == 0 and elo[l][0] * ehi[l][0] < 0):
        ctx.finding(f"{kind}-infeasible-selection", f"{kind} returned field ({l},{k}) with positive excess at max height without the continue flag",
                    {"kind": kind, "args": args, "real": out_r, "trace": tr_r})


# ----------------------------------------------------------------------------- solve_root
def real_solve_root(x, flo, fhi, lo, hi):
    """Real utilities.solve_root on a piecewise-linear objective through (lo,flo),(hi,fhi)."""
    from ghedesigner.utilities import solve_root

    def f(h):
        if h == lo:
            return flo
        if h == hi:
            return fhi
        return flo + (fhi - flo) * (h - lo) / (hi - lo)

    try:
        r = solve_root(x, f, lower=lo, upper=hi, abs_tol=1e-6, rel_tol=1e-6, max_iter=50)
        if r == lo:
            return ("clampedLow" if flo < 0 and fhi < 0 else "bracketed-at-lo", float(r)), ""
        if r == hi:
            return ("clampedHigh" if flo > 0 and fhi > 0 else "bracketed-at-hi", float(r)), ""
        return ("bracketed", float(r)), ""
    except Exception as e:  # noqa: BLE001
        return (exc_name(e), None), ""


def model_line_root(x, flo, fhi, lo, hi):
    # the model gets Brent's answer as a parameter: the exact root of the linear objective
    from fractions import Fraction

    a, b, fl, fh = core.frac(lo), core.frac(hi), core.frac(flo), core.frac(fhi)
    brent = a - fl * (b - a) / (fh - fl) if fh != fl else a
    return " ".join(["solveroot", core.rs(x), core.rs(flo), core.rs(fhi), core.rs(lo), core.rs(hi), f"{Fraction(brent).numerator}/{Fraction(brent).denominator}"])


def root_cases(rng, n):
    out = []
    for _ in range(n):
        lo = round(rng.uniform(20, 100), 2)
        hi = round(lo + rng.uniform(0.5, 200), 2)
        flo = rng.choice([-1, 1]) * rng.uniform(1e-4, 5.0) if rng.random() > 0.03 else 0.0
        fhi = rng.choice([-1, 1]) * rng.uniform(1e-4, 5.0) if rng.random() > 0.03 else 0.0
        out.append(("root", ((lo + hi) / 2, flo, fhi, lo, hi)))
    return out


def check_root_predicate(ctx, args, out_r):
    x, flo, fhi, lo, hi = args
    kind, r = out_r
    if r is None:
        if not (kind == "raise ZeroDivisionError" and (flo == 0 or fhi == 0)):
            ctx.finding("solve-root-exception", f"solve_root raised {kind} for f(lo)={flo}, f(hi)={fhi}", {"args": args})
        return
    if not (lo <= r <= hi):
        ctx.finding("solve-root-outside-window", f"solve_root returned {r} outside [{lo},{hi}]", {"args": args})
    if flo * fhi < 0:
        root = lo - flo * (hi - lo) / (fhi - flo)
        if abs(r - root) > 2 * (1e-6 + 1e-6 * hi):
            ctx.finding("solve-root-not-a-root", f"bracketed solve returned {r}, root is {root}", {"args": args})
    elif flo < 0 and fhi < 0 and r != lo:
        ctx.finding("solve-root-clamp", f"both ends negative but returned {r} != lower bound", {"args": args})
    elif flo > 0 and fhi > 0 and r != hi:
        ctx.finding("solve-root-clamp", f"both ends positive but returned {r} != upper bound", {"args": args})


# ----------------------------------------------------------------------------- RowWise search
def real_rw(start, stop, step, cont, max_iter, e1, oracle, esub, perimeter=None):
    """Run the REAL RowWiseModifiedBisectionSearch.search with a synthetic field generator.
    oracle(spacing) -> (nbh, excess_at_max_height, sized_height); esub[n-1] = excess of the n-borehole
    sub-field.  Returns (outcome, trace, table of every spacing queried)."""
    from unittest import mock

    import ghedesigner.search_routines as sr

    table = {}

    def gen(spacing):
        if spacing not in table:
            table[spacing] = oracle(spacing)
        nb = table[spacing][0]
        return [[[float(k), float(spacing)] for k in range(nb)], f"S{spacing!r}"]

    def fake_fr(space_start, rotate_step, prop_bound, ng_zones=None, rotate_start=None, rotate_stop=None, **kw):
        return gen(space_start)

    def fake_wp(p_space, space_start, rotate_step, prop_bound, ng_zones=None, rotate_start=None, rotate_stop=None):
        return gen(space_start)

    trace = []
    obj = sr.RowWiseModifiedBisectionSearch.__new__(sr.RowWiseModifiedBisectionSearch)
    obj.geometricConstraints = types.SimpleNamespace(min_spacing=start, max_spacing=stop, spacing_step=step, rotate_step=1.0,
                                                     property_boundary=[[0, 0], [1, 0], [1, 1]], no_go_boundaries=[],
                                                     min_rotation=0.0, max_rotation=0.0, perimeter_spacing_ratio=perimeter)
    obj.sim_params = types.SimpleNamespace(max_boreholes=None, min_height=60.0, max_height=135.0, continue_if_design_unmet=cont)
    obj.max_iter = max_iter
    obj.advanced_tracking = [["TargetSpacing", "Field Specifier", "nbh", "ExcessTemperature"]]
    obj.checkedFields = []
    obj.searchTracker = []
    obj.disp = False
    state = {"last": None}

    def ce(coords, h, field_specifier="N/A"):
        if field_specifier == "1X1":
            trace.append("one")
            state["last"] = ("one",)
            return e1
        if "_BR" in field_specifier:
            n = len(coords)
            trace.append(f"sub{n}")
            state["last"] = ("sub", n)
            return esub[n - 1]
        s = float(field_specifier[1:])
        trace.append("s" + core.rs(s))
        state["last"] = ("sp", s)
        return table[s][1]

    def init(coords, h, field_specifier="N/A"):
        s = float(field_specifier[1:].split("_BR")[0]) if field_specifier.startswith("S") else None
        state["last"] = ("sp", s)
        obj.ghe = types.SimpleNamespace(compute_g_functions=lambda: None, size=lambda method=None: None,
                                        bhe=types.SimpleNamespace(b=types.SimpleNamespace(H=table[s][2] if s in table else 0.0)))

    obj.calculate_excess = ce
    obj.initialize_ghe = init
    try:
        with mock.patch.object(sr, "gen_shape", lambda a, b: (None, None)), \
                mock.patch.object(sr, "field_optimization_fr", fake_fr), \
                mock.patch.object(sr, "field_optimization_wp_space_fr", fake_wp), ghelib.quiet():
            coords, spec = obj.search()
        n = len(coords)
        if spec == "1X1":
            out = "selected single"
        elif spec is not None and "_BR" in spec:
            out = f"selected sub{n}"
        else:
            s = float(coords[0][1])
            esc = " escape" if (cont and table[start][1] > 0 and table[stop][1] > 0) else ""
            out = f"selected s{core.rs(s)}{esc}"
    except Exception as e:  # noqa: BLE001
        out = exc_name(e)
    return out, " ".join(trace), dict(table)


def model_line_rw(start, stop, step, cont, max_iter, e1, table, esub):
    parts = ["rw", core.rs(start), core.rs(stop), core.rs(step), "1" if cont else "0", str(max_iter), core.rs(e1), str(len(table))]
    for s, (nb, e, sz) in table.items():
        parts += [core.rs(s), str(nb), core.rs(e), core.rs(sz)]
    parts += [str(len(esub))] + [core.rs(v) for v in esub]
    return " ".join(parts)


def rw_oracle(seed, s0, slope, wiggle, zeros):
    """Deterministic synthetic field generator oracle: spacing -> (nbh, excess at max height, sized height)."""
    import random as _r

    def oracle(s):
        r = _r.Random(hash((seed, s)))
        nb = max(1, int(900.0 / (s * s)) + r.randint(0, 2))
        e = slope * (s - s0) + wiggle * (r.random() - 0.5)
        if zeros and r.random() < 0.02:
            e = 0.0
        return nb, e, round(r.uniform(60.0, 135.0), 3)

    return oracle


def rw_case_spec(rng):
    """A synthetic RowWise problem with dyadic spacings (float arithmetic on them is exact)."""
    start = rng.choice([4.0, 5.0, 6.5, 8.0])
    stop = start + rng.choice([2.0, 4.0, 8.0, 10.0])
    step = rng.choice([0.625, 1.25, 2.5, 0.3125])
    s0 = rng.uniform(start - 3, stop + 3)          # feasibility threshold in spacing
    slope = rng.uniform(0.2, 3.0)
    wiggle = rng.choice([0.0, 0.0, 0.8, 3.0])      # non-monotone component
    seed = rng.randrange(1 << 30)
    zeros = rng.random() < 0.2
    nmax = max(1, int(900.0 / (stop * stop)) + 2)
    th = rng.randint(0, nmax + 1)
    esub = [(1.0 if n < th else -1.0) * (0.5 + 0.01 * n) if rng.random() > 0.1 else rng.choice([-1.0, 1.0, 0.0]) for n in range(1, nmax + 1)]
    e1 = rng.choice([-0.5, 0.7, 0.7, 0.7, 0.0])
    return start, stop, step, rng.random() < 0.4, rng.choice([10, 10, 3, 0]), e1, (seed, s0, slope, wiggle, zeros), esub


def rw_case(rng):
    start, stop, step, cont, mi, e1, spec, esub = rw_case_spec(rng)
    return start, stop, step, cont, mi, e1, rw_oracle(*spec), esub


# ----------------------------------------------------------------------------- GHE.size plumbing
def real_size(case):
    """The REAL GHE.size on a bare GHE object whose simulate() is a synthetic function of (height, method):
    hybrid excess root at r_hyb, hourly excess root at r_hr.  Returns (H, height of the last simulate, method
    of the last simulate, number of simulate calls)."""
    from ghedesigner.enums import TimestepType
    from ghedesigner.ground_heat_exchangers import GHE

    method_name, lo, hi, r_hyb, r_hr, slope = case[:6]
    cold_root, cold_slope = (case[6], case[7]) if len(case) > 6 else (None, 0.0)
    g = GHE.__new__(GHE)
    g.bhe = types.SimpleNamespace(b=types.SimpleNamespace(H=96.0))
    g.sim_params = types.SimpleNamespace(min_height=lo, max_height=hi, max_EFT_allowable=35.0, min_EFT_allowable=5.0)
    calls = []

    def simulate(method):
        h = g.bhe.b.H
        root = r_hyb if method == TimestepType.HYBRID else r_hr
        excess = slope * (root - h)          # decreasing in the height, zero at the root
        calls.append((float(h), method.name))
        # the lower limit has its own curve (root cold_root): the excess the tool must solve on is
        # the larger of the two at every height
        mn = 20.0 if cold_root is None else 5.0 - cold_slope * (cold_root - h)
        g.hp_eft = [35.0 + excess, mn]
        return 35.0 + excess, mn

    g.simulate = simulate
    try:
        GHE.size(g, method=TimestepType[method_name])
        return float(g.bhe.b.H), calls[-1][0] if calls else None, calls[-1][1] if calls else None, len(calls), [c[1] for c in calls]
    except Exception as e:  # noqa: BLE001
        return exc_name(e), None, None, len(calls), []


def size_cases(rng, n):
    out = []
    for _ in range(n):
        lo = rng.choice([30.0, 60.0, 100.0])
        hi = lo + rng.choice([0.5, 30.0, 75.0, 100.0])
        span = hi - lo
        c = (rng.choice(["HYBRID", "HOURLY"]), lo, hi, lo + rng.uniform(-0.5, 1.5) * span, lo + rng.uniform(-0.5, 1.5) * span, rng.uniform(0.01, 2.0))
        if rng.random() < 0.2:
            # an excess that RISES with the height and has the same sign at both ends (negative slope, root outside the window):
            # solve_root's clamp is decided by the sign, not by which end is closer to zero
            outside = rng.choice([lo - rng.uniform(0.05, 2.0) * span, hi + rng.uniform(0.05, 2.0) * span])
            out.append((c[0], lo, hi, outside, outside, -c[5]))
            continue
        if rng.random() < 0.5:
            # both limits in play: the governing one may change between the middle of the window and the root
            c = c + (lo + rng.uniform(-0.5, 1.5) * span, rng.uniform(0.01, 2.0))
        out.append(c)
    return out


def check_size_predicate(ctx, case, res):
    method_name, lo, hi, r_hyb, r_hr, slope = case[:6]
    H, last_h, last_m, n, methods = res
    rep = {"method": method_name, "min_height": lo, "max_height": hi, "hybrid_root": r_hyb, "hourly_root": r_hr, "slope": slope, "result": res}
    if len(case) > 6:
        rep.update(lower_limit_root=case[6], lower_limit_slope=case[7])
    if isinstance(H, str):
        ctx.finding("size-raises", f"GHE.size({method_name}) raised {H}", rep)
        return
    root = r_hyb if method_name == "HYBRID" else r_hr
    if len(case) > 6:
        root = max(root, case[6])        # both excess curves decrease with the height: their maximum is zero at the larger root
    want = min(max(root, lo), hi)
    if slope < 0:
        # rising excess, root outside the window: excess(h) = slope * (root - h), slope < 0, has one sign on [lo, hi]:
        # root above the window -> negative everywhere -> lower bound; root below -> positive everywhere -> upper bound
        want = lo if root > hi else hi
    tol = 2 * (1e-6 + 1e-6 * hi) + 1e-9
    if abs(H - want) > tol:
        ctx.finding("size-height-not-the-root", f"GHE.size({method_name}) on [{lo},{hi}] returned {H}, the {method_name.lower()} excess is zero at {root} (expected {want})", rep)
    if any(m != method_name for m in methods):
        ctx.finding("size-wrong-method", f"GHE.size({method_name}) simulated with {sorted(set(methods))}", rep)
    if last_h is None or abs(last_h - H) > 1e-12 or last_m != method_name:
        ctx.finding("size-temps-not-at-returned-height", f"after GHE.size({method_name}) the stored temperatures are those of H={last_h} ({last_m}), the object has H={H}", rep)
