"""C15 — Equivalent single U-tube preserves the exchanger's bulk properties.

Proof side: lean/GHEVerif/Props/C15.lean about Model/EquivTube.lean (volumes preserved, enlarged
borehole fits, R_fp strictly decreasing in k, matched within an explicit bound when Brent's contract
holds, unmatchable when R_f' >= target (F10), grout solve a no-op without a circuit refresh (F9) and
matched with one, solve_root never falls through, single U-tube is a fixed point).

Tie to the code:
  * translate/gen_equivtube.py regenerates the constants and the three structural facts
    (pipe solve result discarded, neither objective refreshes the delta-circuit) from the source;
  * correspondence: the SAME model definitions instantiated at Float are run on the inputs of every
    generated exchanger and compared with the real `*_volumes()`, `to_single()` and the captured
    `solve_root` calls; the Rat instantiation is compared exactly with the real `utilities.solve_root`
    on synthetic objectives (all sign patterns, zero values, float and numpy scalars, defaults);
  * predicate on the real outputs with oracles that share no code with GHEDesigner (Fractions for the
    volumes and the fit test, closed-form root of the pipe objective, fresh pygfunction objects for R_b).
    The target R_conv + R_pipe, the volumes and the model's inputs come from `independent_bulk` (the case's own
    radii, each wall's own conductivity, pygfunction's correlations) - never from what `*_volumes()` returns;
    `*_volumes()` itself is checked against it.  Known-finding signatures refer to the documented bracket
    [k_p'/100, 10 k_p'] around the harness's own k_p'.
  * generator: SDR 7-21, thin-walled (0.6-10 % of the radius: metal / thin plastic) and thick-walled tubing, tube
    radius 6-40 % of the borehole radius, shank spacing over the whole feasible range, pipe conductivity 0.03-20
    W/m.K, coaxial inner/outer pipes of different material in 3 of 4 cases (histogram `wall:*`, `coaxial-k:*`).
"""
from __future__ import annotations

import json
import math
import os
import struct
from fractions import Fraction

import core
import ghelib

PROPERTY = "C15"
LEVEL = "proof"
MANIFEST = {
    "text": "Converting a double U-tube or coaxial exchanger to the equivalent single U-tube preserves fluid and "
            "pipe-wall volume per metre, reproduces R_conv+R_pipe, and reproduces the effective borehole resistance "
            "within 0.1 %; a single U-tube converts to itself.",
    "note": "partial: volumes / fit / R_fp matching / solve_root logic are proved and hold on the code; the R_b claim "
            "fails on the unchanged tree (F9: grout objective does not refresh the delta-circuit) and R_fp cannot be "
            "matched for low-flow coaxial cases (F10); both are recognised by signature as known findings.",
    "technique": "Lean 4 theorems over R about a scalar-polymorphic executable model; Float/Rat instantiations of the "
                 "same definitions run differentially against the real code; constants and structure regenerated from source",
    "design_ref": "DESIGN.md §6 C15",
}

PI = Fraction(math.pi)
FLUIDS = [("Water", 0.0), ("PropyleneGlycol", 20.0), ("PropyleneGlycol", 40.0), ("EthyleneGlycol", 25.0),
          ("EthyleneGlycol", 45.0), ("MethylAlcohol", 15.0), ("MethylAlcohol", 35.0), ("EthylAlcohol", 20.0),
          ("EthylAlcohol", 40.0), ("Water", 0.0)]
KINDS = ["DOUBLEUTUBEPARALLEL", "DOUBLEUTUBESERIES", "COAXIAL", "SINGLEUTUBE"]
RB_TOL = 1.0e-3          # the property's 0.1 %
VOL_TOL = 1.0e-12
F9_KEY = "F9-grout-objective-does-not-refresh-circuit"
F10_KEY = "F10-pipe-bracket-has-no-root-Rf-exceeds-target"
LOWER_KEY = "pipe-root-below-bracket-and-pipe-k-left-at-upper-bound"
ABOVE_KEY = "pipe-root-above-bracket-upper-clamp"


def fb(x) -> str:
    return str(struct.unpack("<Q", struct.pack("<d", float(x)))[0])


def bf(s: str) -> float:
    return struct.unpack("<d", struct.pack("<Q", int(s)))[0]


def close(a, b, rel=1e-9, abs_=0.0):
    a, b = float(a), float(b)
    if math.isnan(a) or math.isnan(b):
        return False
    return abs(a - b) <= max(abs_, rel * max(abs(a), abs(b)))


# ----------------------------------------------------------------------------------------- generator
def wall_ratio(rng):
    """wall thickness / outer radius: SDR 7-21 plastics, thin-walled (metal or thin plastic) tubing, thick walls."""
    u = rng.random()
    if u < 0.40:
        return 2.0 / rng.uniform(7.0, 21.0)
    if u < 0.85:
        return 10 ** rng.uniform(math.log10(0.006), math.log10(0.10))
    return rng.uniform(0.20, 0.45)


def pipe_k(rng):
    """pipe conductivity: plastics 0.1-0.8, insulated 0.03-0.1, enhanced 0.8-3, stainless ~15."""
    u = rng.random()
    if u < 0.6:
        return round(rng.uniform(0.1, 0.8), 3)
    if u < 0.75:
        return round(rng.uniform(0.03, 0.1), 4)
    if u < 0.9:
        return round(rng.uniform(0.8, 3.0), 3)
    return round(rng.uniform(10.0, 20.0), 2)


def fluid_temperature(rng, fluid):
    """Design temperature of the fluid (C): the default 20, warm, cold, and - for the antifreeze mixtures, which is what
    they exist for - below zero (all listed concentrations stay liquid down to -5 C)."""
    if fluid[0] == "Water":
        return rng.choice([20.0, 20.0, 1.0, 5.0, 12.0, 35.0])
    return rng.choice([20.0, 20.0, -5.0, -3.0, -2.0, -1.0, 0.0, 5.0, 35.0, round(rng.uniform(-5.0, 10.0), 1)])


def user_fluid(case):
    """The fluid the USER specified (name, concentration, design temperature) as pygfunction's own Fluid - not the
    package's GHEFluid: every reference value (mu, rho, k, cp, hence mass flow, h, R_conv, R_f') comes from here."""
    return ghelib.independent_fluid({"fluid": (case["fluid"][0], case["fluid"][1]), "fluid_temp": case.get("fluid_temp", 20.0)})


def gen_case(rng, i, force_kind=None):
    kind = force_kind or KINDS[i % 4 if i % 11 else rng.randrange(4)]
    dia = round(rng.choice([rng.uniform(0.075, 0.30), rng.uniform(0.09, 0.2), rng.choice([0.11, 0.127, 0.14, 0.15, 0.2])]), 4)
    rb = dia / 2.0
    c = {"kind": kind, "dia": dia, "H": round(rng.uniform(40, 400), 1), "D": round(rng.uniform(0.5, 5.0), 2),
         "fluid": list(rng.choice(FLUIDS)),
         "flow": round(10 ** rng.uniform(math.log10(0.015), math.log10(2.0)), 4),      # L/s per borehole
         "k_g": round(rng.uniform(0.4, 3.0), 3), "k_s": round(rng.uniform(0.5, 5.0), 3),
         "rough": rng.choice([1.0e-6, 1.0e-6, 1.5e-6, 1.0e-5])}
    c["fluid_temp"] = fluid_temperature(rng, c["fluid"])
    if kind == "COAXIAL":
        roo = rb * rng.uniform(0.40, 0.985)
        roi = roo * (1.0 - wall_ratio(rng))
        rio = roi * rng.uniform(0.25, 0.9)
        rii = rio * (1.0 - wall_ratio(rng))
        k_in = pipe_k(rng)
        # inner and outer pipe of different material in ~3 of 4 cases (insulated inner pipe, enhanced outer pipe, ...)
        k_out = k_in if rng.random() < 0.25 else pipe_k(rng)
        c.update(r_inner=[rii, rio], r_outer=[roi, roo], k_p=[k_in, k_out])
    else:
        n_u = 1 if kind == "SINGLEUTUBE" else 2
        if n_u == 2:
            r_out = rb * rng.uniform(0.06, 0.405)      # four tubes at 90 degrees: r_b >= (1+sqrt2) r_out
            s_min = 2.0 * (math.sqrt(2.0) - 1.0) * r_out * 1.0001
        else:
            r_out = rb * rng.uniform(0.06, 0.48)
            s_min = 0.0
        s_max = 2.0 * (rb - 2.0 * r_out)
        s = s_min + (s_max - s_min) * rng.uniform(0.01, 0.99)
        c.update(r_out=r_out, r_in=r_out * (1.0 - wall_ratio(rng)), s=s, k_p=pipe_k(rng))
    return c


def gen_change(rng, c):
    """One ingredient of exchanger `c` to modify at unchanged mass flow."""
    opts = ["pipe_k", "pipe_k", "fluid", "rough", "H", "k_g"] + (["pipe_k_inner"] if c["kind"] == "COAXIAL" else [])
    what = rng.choice(opts)
    if what in ("pipe_k", "pipe_k_inner"):
        old = (c["k_p"][1] if what == "pipe_k" else c["k_p"][0]) if c["kind"] == "COAXIAL" else c["k_p"]
        val = round(old * rng.choice([0.2, 0.5, 1.75, 3.0, 8.0]), 4)
    elif what == "fluid":
        val = list(rng.choice([f for f in FLUIDS if list(f) != list(c["fluid"])]))
        val.append(fluid_temperature(rng, val))
    elif what == "rough":
        val = rng.choice([v for v in (1.0e-6, 1.0e-5, 1.0e-4, 5.0e-4) if v != c["rough"]])
    elif what == "H":
        val = round(c["H"] * rng.choice([0.5, 0.8, 1.3, 2.0]), 1)
    else:
        val = round(rng.uniform(0.4, 3.0), 3)
    return {"what": what, "value": val}


def corpus_histories():
    base = {"H": 100.0, "D": 2.0, "dia": 0.14, "fluid": ["Water", 0.0], "k_g": 1.0, "k_s": 2.0, "rough": 1.0e-6}
    du = dict(base, kind="DOUBLEUTUBEPARALLEL", flow=0.5, r_out=0.04216 / 2, r_in=0.03404 / 2, s=0.01856, k_p=0.4)
    cx = dict(base, kind="COAXIAL", flow=0.8, r_inner=[0.0442 / 2, 0.050 / 2], r_outer=[0.0974 / 2, 0.110 / 2], k_p=[0.4, 0.4])
    return [{"initial": du, "change": {"what": "pipe_k", "value": 0.7}},
            {"initial": cx, "change": {"what": "pipe_k", "value": 1.2}},
            {"initial": du, "change": {"what": "fluid", "value": ["PropyleneGlycol", 20.0]}},
            {"initial": du, "change": {"what": "fluid", "value": ["EthyleneGlycol", 30.0, -5.0]}},
            {"initial": dict(du, kind="DOUBLEUTUBESERIES"), "change": {"what": "rough", "value": 5.0e-4}},
            {"initial": du, "change": {"what": "H", "value": 150.0}},
            {"initial": cx, "change": {"what": "H", "value": 60.0}},
            {"initial": cx, "change": {"what": "fluid", "value": ["EthyleneGlycol", 25.0]}},
            {"initial": du, "change": {"what": "k_g", "value": 2.2}}]


def corpus_sequences():
    base = {"H": 100.0, "D": 2.0, "dia": 0.14, "fluid": ["Water", 0.0], "k_g": 1.0, "k_s": 2.0, "rough": 1.0e-6}
    du = dict(base, kind="DOUBLEUTUBEPARALLEL", flow=0.5, r_out=0.04216 / 2, r_in=0.03404 / 2, s=0.01856, k_p=0.4)
    cx16 = dict(base, kind="COAXIAL", flow=0.8, r_inner=[0.0442 / 2, 0.050 / 2], r_outer=[0.0974 / 2, 0.110 / 2], k_p=[0.4, 16.0])
    hi, lo = dict(du, flow=2.0), dict(du, flow=0.10)
    return [[du, cx16], [cx16, du], [hi, lo], [lo, hi], [dict(du, kind="DOUBLEUTUBESERIES", flow=1.0), cx16, lo, hi]]


def gen_sequence(rng, i):
    """2-4 DIFFERENT exchangers whose matching pipe conductivities are far apart (flow regime and pipe material vary)."""
    kind = i % 3
    if kind == 0:       # same exchanger at a turbulent and at a laminar flow rate, both orders
        a = gen_case(rng, 0, rng.choice(["DOUBLEUTUBEPARALLEL", "DOUBLEUTUBESERIES"]))
        a["fluid"], a["fluid_temp"] = ["Water", 0.0], 20.0
        hi, lo = dict(a, flow=round(rng.uniform(1.0, 2.5), 3)), dict(a, flow=round(rng.uniform(0.04, 0.12), 4))
        return [hi, lo] if i % 2 else [lo, hi]
    if kind == 1:       # plastic double-U and a coaxial with a metal outer pipe, both orders
        a = gen_case(rng, 0, rng.choice(["DOUBLEUTUBEPARALLEL", "DOUBLEUTUBESERIES"]))
        a["k_p"] = round(rng.uniform(0.3, 0.6), 3)
        a["flow"] = round(rng.uniform(0.3, 1.5), 3)
        b = gen_case(rng, 0, "COAXIAL")
        b["k_p"] = [round(rng.uniform(0.1, 0.6), 3), round(rng.uniform(8.0, 20.0), 2)]
        b["flow"] = round(rng.uniform(0.4, 1.5), 3)
        return [a, b] if i % 2 else [b, a]
    return [gen_case(rng, rng.randrange(3)) for _ in range(rng.randint(2, 4))]


def corpus_cases():
    base = {"H": 100.0, "D": 2.0, "dia": 0.14, "fluid": ["Water", 0.0], "k_g": 1.0, "k_s": 2.0, "rough": 1.0e-6}
    du = dict(base, r_out=0.04216 / 2, r_in=0.03404 / 2, s=0.01856, k_p=0.4)
    cx = dict(base, r_inner=[0.0442 / 2, 0.050 / 2], r_outer=[0.0974 / 2, 0.110 / 2], k_p=[0.4, 0.4])
    out = [dict(du, kind="DOUBLEUTUBEPARALLEL", flow=0.5, name="repo-test-double-u-parallel"),
           dict(du, kind="DOUBLEUTUBESERIES", flow=0.5, name="repo-test-double-u-series"),
           dict(cx, kind="COAXIAL", flow=0.8, name="repo-test-coaxial"),
           dict(cx, kind="COAXIAL", flow=0.05, name="F10-low-flow-coaxial"),
           dict(du, kind="DOUBLEUTUBEPARALLEL", flow=0.02, name="laminar-double-u"),
           dict(du, kind="SINGLEUTUBE", flow=0.5, name="single-u-identity"),
           # antifreeze at a sub-zero design temperature (and cold / warm water)
           dict(du, kind="DOUBLEUTUBEPARALLEL", flow=0.5, fluid=["PropyleneGlycol", 20.0], fluid_temp=-2.0, name="pg20-at-minus2-double-u-parallel"),
           dict(du, kind="DOUBLEUTUBESERIES", flow=0.4, fluid=["EthyleneGlycol", 30.0], fluid_temp=-5.0, name="eg30-at-minus5-double-u-series"),
           dict(cx, kind="COAXIAL", flow=0.8, fluid=["MethylAlcohol", 15.0], fluid_temp=-3.0, name="ma15-at-minus3-coaxial"),
           dict(du, kind="DOUBLEUTUBEPARALLEL", flow=0.3, fluid=["EthylAlcohol", 20.0], fluid_temp=-4.0, name="ea20-at-minus4-double-u-parallel"),
           dict(du, kind="DOUBLEUTUBEPARALLEL", flow=0.5, fluid_temp=5.0, name="water-at-5-double-u"),
           dict(cx, kind="COAXIAL", flow=0.8, fluid_temp=35.0, name="water-at-35-coaxial"),
           # thin-walled tubing (0.6 mm wall: the equal-volume wall is 0.85 mm) and different inner/outer pipe materials
           dict(base, kind="DOUBLEUTUBEPARALLEL", flow=0.5, r_out=0.0312 / 2, r_in=0.0300 / 2, s=0.0200, k_p=0.4, name="thin-wall-30-31.2-double-u"),
           dict(base, kind="DOUBLEUTUBESERIES", flow=0.4, r_out=0.0272 / 2, r_in=0.0260 / 2, s=0.0250, k_p=15.0, name="thin-wall-stainless-double-u"),
           dict(cx, kind="COAXIAL", flow=0.8, k_p=[0.1, 0.4], name="coaxial-insulated-inner-pipe"),
           dict(cx, kind="COAXIAL", flow=0.8, k_p=[0.4, 0.8], name="coaxial-enhanced-outer-pipe"),
           dict(base, kind="COAXIAL", flow=0.6, r_inner=[0.0200, 0.0206], r_outer=[0.0480, 0.0488], k_p=[0.4, 15.0], name="coaxial-thin-walls"),
           # double U-tube whose equivalent tubes do not fit: 4 r_out*sqrt2 > 2 r_b
           dict(base, kind="DOUBLEUTUBESERIES", flow=0.4, dia=0.11, r_out=0.0215, r_in=0.0176, s=0.0179, k_p=0.4,
                name="double-u-needs-enlarged-borehole")]
    d = core.CORPUS / "C15"
    if d.exists():
        for p in sorted(d.glob("*.json")):
            try:
                j = json.loads(p.read_text())
                j = j.get("replay", j).get("case", j.get("replay", j))
                if isinstance(j, dict) and "kind" in j:
                    j.setdefault("name", p.stem)
                    out.append(j)
            except Exception:
                pass
    return out


# ----------------------------------------------------------------------------------------- independent bulk properties
def independent_bulk(case, fluid_props, m_flow):
    """(vol_fluid, vol_pipe, R_conv, R_pipe) and the convection coefficient of the original exchanger, computed from the
    case's own inputs (radii, the two walls' own conductivities) and pygfunction's correlations only - no GHEDesigner code.
    This is the target the equivalent tube has to reproduce; it is NOT read back from `*_volumes()`."""
    import pygfunction as gt
    mu, rho, kf, cp = fluid_props
    pi = math.pi
    if case["kind"] == "COAXIAL":
        rii, rio = case["r_inner"]
        roi, roo = case["r_outer"]
        h_a_in, _h_a_out = gt.pipes.convective_heat_transfer_coefficient_concentric_annulus(m_flow, rio, roi, mu, rho, kf, cp, case["rough"])
        h = float(h_a_in)
        vol_fluid = pi * (rii ** 2 + roi ** 2 - rio ** 2)
        vol_pipe = pi * (rio ** 2 - rii ** 2 + roo ** 2 - roi ** 2)
        r_conv = 1.0 / (h * (2.0 * pi * roi))
        # conduction through the wall between annulus fluid and grout: the OUTER pipe, with the outer pipe's conductivity
        r_pipe = math.log(roo / roi) / (2.0 * pi * case["k_p"][1])
    else:
        ri, ro, n = case["r_in"], case["r_out"], 4
        m_pipe = m_flow if case["kind"] == "DOUBLEUTUBESERIES" else m_flow / 2.0
        h = float(gt.pipes.convective_heat_transfer_coefficient_circular_pipe(m_pipe, ri, mu, rho, kf, cp, case["rough"]))
        vol_fluid = n * pi * ri ** 2
        vol_pipe = n * pi * (ro ** 2 - ri ** 2)
        r_conv = 1.0 / (h * (n * pi * (2.0 * ri) ** 2))      # the code's definition of the combined convective resistance
        r_pipe = math.log(ro / ri) / (n * 2.0 * pi * case["k_p"])
    return [vol_fluid, vol_pipe, r_conv, r_pipe], h


# ----------------------------------------------------------------------------------------- real code
def case_mass_flow(case, rho):
    """Mass flow per borehole: fixed by the case when a history keeps it across a fluid change."""
    return float(case["m_flow"]) if case.get("m_flow") is not None else case["flow"] / 1000.0 * rho


def build_exchanger(case):
    """A fresh exchanger for `case` (real code)."""
    import ghedesigner.borehole_heat_exchangers as B
    from ghedesigner.borehole import GHEBorehole
    from ghedesigner.enums import BHPipeType
    from ghedesigner.media import GHEFluid, Grout, Pipe, Soil

    kind = case["kind"]
    fluid = GHEFluid(fluid_str=case["fluid"][0], percent=case["fluid"][1], temperature=case.get("fluid_temp", 20.0))
    grout = Grout(case["k_g"], 3901000.0)
    soil = Soil(case["k_s"], 2343493.0, 18.3)
    bh = GHEBorehole(case["H"], case["D"], case["dia"] / 2.0, x=0.0, y=0.0)
    if kind == "COAXIAL":
        pipe = Pipe((0, 0), list(case["r_inner"]), list(case["r_outer"]), 0, case["rough"], list(case["k_p"]), 1542000.0)
    else:
        n_u = 1 if kind == "SINGLEUTUBE" else 2
        pipe = Pipe(Pipe.place_pipes(case["s"], case["r_out"], n_u), case["r_in"], case["r_out"], case["s"],
                    case["rough"], case["k_p"], 1542000.0)
    with ghelib.quiet():
        # the volumetric flow the user asked for, as a mass flow of the fluid the user asked for
        return B.get_bhe_object(BHPipeType[kind], case_mass_flow(case, float(user_fluid(case).rho)), fluid, bh, pipe, grout, soil)


def run_impl(case, bhe=None):
    """Run the real conversion on one case (worker process).  Everything returned is a plain float / str.
    With `bhe` given, convert THAT live object (history stream); `case` then describes its current ingredients."""
    import numpy as np
    import pygfunction as gt

    import ghedesigner.borehole_heat_exchangers as B
    import ghedesigner.utilities as U
    from ghedesigner.media import GHEFluid

    kind = case["kind"]
    out = {"impl_file": B.__file__}
    try:
        # fluid properties for the oracle come from the case's user-level specification through pygfunction's own Fluid,
        # neither from the live object nor from the package's fluid class
        fluid = user_fluid(case)
        m_flow = case_mass_flow(case, fluid.rho)
        out["fluid"] = [float(fluid.mu), float(fluid.rho), float(fluid.k), float(fluid.cp)]
        out["m_flow"] = float(m_flow)
        if kind != "SINGLEUTUBE":
            out["ovols"], out["hf"] = independent_bulk(case, out["fluid"], float(m_flow))
        if bhe is None:
            bhe = build_exchanger(case)
    except Exception as e:  # construction failed: not a C15 matter, reported as a skipped case
        out["construct_error"] = f"{type(e).__name__}: {e}"
        return out

    rb_before = float(bhe.calc_effective_borehole_resistance())
    out["rb_orig"] = rb_before
    if kind == "SINGLEUTUBE":
        s1 = bhe.to_single()
        out["identity"] = s1 is bhe
        out["rb_after"] = float(s1.calc_effective_borehole_resistance())
        out["re"] = float(B.GHEDesignerBoreholeBase.compute_reynolds(m_flow, case["r_in"], fluid))
        return out

    if kind == "COAXIAL":
        vols = bhe.concentric_tube_volumes()
        out["hf_impl"] = float(bhe.h_f_a_in)
        out["re"] = float(B.CoaxialPipe.compute_reynolds_concentric(m_flow, case["r_inner"][1], case["r_outer"][0], fluid))
    else:
        vols = bhe.u_tube_volumes()
        out["hf_impl"] = float(bhe.h_f)
        out["n_pipes"] = int(bhe.nPipes)
        out["m_flow_pipe"] = float(bhe.m_flow_pipe)
        out["re"] = float(B.GHEDesignerBoreholeBase.compute_reynolds(bhe.m_flow_pipe, case["r_in"], fluid))
    out["vols"] = [float(v) for v in vols]

    # record every solve_root call made by the conversion (objective wrapped in-process; the real
    # utilities.solve_root still does the work)
    calls = []
    real_solve = U.solve_root

    def recording_solve(x, objective, lower=None, upper=None, **kw):
        ev = []

        def f(v):
            r = objective(v)
            ev.append((float(v), float(r)))
            return r

        rec = {"x": float(x), "lower": None if lower is None else float(lower), "upper": None if upper is None else float(upper), "ev": ev}
        calls.append(rec)
        try:
            res = real_solve(x, f, lower=lower, upper=upper, **kw)
        except Exception as e:
            rec["raised"] = type(e).__name__
            raise
        rec["ret"] = float(res)
        return res

    saved = B.solve_root
    B.solve_root = recording_solve
    try:
        with ghelib.quiet(), np.errstate(all="ignore"):
            s1 = bhe.to_single()
    except Exception as e:
        out["raised"] = type(e).__name__
        out["raised_msg"] = str(e)[:200]
        out["calls"] = calls
        return out
    finally:
        B.solve_root = saved
    out["calls"] = calls
    out["single"] = {
        "r_in": float(s1.pipe.r_in), "r_out": float(s1.pipe.r_out), "r_in_pyg": float(s1.r_in), "r_out_pyg": float(s1.r_out),
        "k_p": float(s1.pipe.k), "k_g": float(s1.grout.k), "k_g_pyg": float(s1.k_g), "r_b": float(s1.b.r_b),
        "s": float(s1.pipe.s), "pos": [[float(a), float(b)] for a, b in s1.pipe.pos], "R_fp": float(s1.R_fp),
        "R_f": float(s1.R_f), "h_f": float(s1.h_f), "H": float(s1.b.H), "D": float(s1.b.D),
        "m_flow": float(s1.m_flow_borehole), "rough": float(s1.pipe.roughness), "is_single": type(s1).__name__,
    }
    out["rb_single"] = float(s1.calc_effective_borehole_resistance())
    # the original must not have been modified by the conversion
    out["orig_after"] = {"r_b": float(bhe.b.r_b), "k_g": float(bhe.grout.k), "rb": float(bhe.calc_effective_borehole_resistance()),
                         "k_p": [float(x) for x in np.atleast_1d(bhe.pipe.k)]}

    # ---- third-party values the model needs, computed WITHOUT GHEDesigner code (pygfunction only)
    mu, rho, kf, cp = out["fluid"]
    vf, vp, rc, rp = out["ovols"]          # independent of the implementation
    r_pi = math.sqrt(vf / (2 * math.pi))
    r_po = math.sqrt((vf + vp) / (2 * math.pi))
    out["hf_eq"] = float(gt.pipes.convective_heat_transfer_coefficient_circular_pipe(m_flow, r_pi, mu, rho, kf, cp, case["rough"]))

    def fresh_rb(pos, r_in, r_out, r_b, k_g, r_fp):
        b = gt.boreholes.Borehole(case["H"], case["D"], r_b, 0.0, 0.0)
        t = gt.pipes.SingleUTube(pos, r_in, r_out, b, case["k_s"], k_g, r_fp)
        return float(t.effective_borehole_thermal_resistance(m_flow, cp))

    sg = out["single"]
    c_log = math.log(r_po / r_pi) / (2 * math.pi)
    r_f_eq = 1.0 / (out["hf_eq"] * 2 * math.pi * r_pi)
    kp0 = math.log(r_po / r_pi) / (2 * math.pi * 2 * rp)
    out["oracle"] = {"r_pi": r_pi, "r_po": r_po, "c_log": c_log, "r_f_eq": r_f_eq, "kp0": kp0}
    pos = [tuple(p) for p in sg["pos"]]
    try:
        # R_b of the preliminary tube (circuit computed at construction: k_g0, R_fp0)
        out["rb00"] = fresh_rb(pos, r_pi, r_po, sg["r_b"], case["k_g"], r_f_eq + c_log / kp0)
        # R_b of a tube rebuilt from scratch with the REPORTED parameters
        out["rb_reported_params"] = fresh_rb(pos, sg["r_in"], sg["r_out"], sg["r_b"], sg["k_g"], sg["R_fp"])
        # what a refreshed objective would see (repair what-if): R_b(k_g) with the final R_fp
        out["rb_lo"] = fresh_rb(pos, r_pi, r_po, sg["r_b"], 0.01, sg["R_fp"])
        out["rb_hi"] = fresh_rb(pos, r_pi, r_po, sg["r_b"], 7.0, sg["R_fp"])
        gcall = calls[1] if len(calls) > 1 else None
        if gcall is not None and len(gcall["ev"]) > 2:
            # the grout solve really ran Brent (only possible when the objective refreshes the circuit)
            out["rb_at_glast"] = fresh_rb(pos, r_pi, r_po, sg["r_b"], gcall["ev"][-1][0], sg["R_fp"])
        if case.get("whatif"):
            from scipy.optimize import brentq
            evs = []

            def obj(kg):
                evs.append(float(kg))
                return out["rb_orig"] - fresh_rb(pos, r_pi, r_po, sg["r_b"], kg, sg["R_fp"])

            if (out["rb_orig"] - out["rb_lo"]) * (out["rb_orig"] - out["rb_hi"]) < 0:
                root = float(brentq(obj, 0.01, 7.0, xtol=1e-6, rtol=1e-6, maxiter=50))
                out["whatif"] = {"root": root, "last": evs[-1], "rb_at_last": fresh_rb(pos, r_pi, r_po, sg["r_b"], evs[-1], sg["R_fp"]),
                                 "rb_at_root": fresh_rb(pos, r_pi, r_po, sg["r_b"], root, sg["R_fp"])}
            else:
                out["whatif"] = {"no_sign_change": True}
    except Exception as e:
        out["oracle_error"] = f"{type(e).__name__}: {e}"
    return out


def _worker(case):
    try:
        return run_impl(case)
    except Exception as e:  # harness problem, not a property verdict
        import traceback
        return {"harness_error": f"{type(e).__name__}: {e}", "tb": traceback.format_exc()[-1500:]}


# ----------------------------------------------------------------------------------------- call histories
def apply_change(bhe, case, change):
    """Modify one ingredient of the LIVE exchanger at unchanged mass flow, bring the object itself up to date the way a
    user would (calc_fluid_pipe_resistance + update_thermal_resistances), and return the case describing its new state."""
    from ghedesigner.media import GHEFluid

    c1 = {k: (list(v) if isinstance(v, list) else v) for k, v in case.items() if k not in ("whatif", "name")}
    c1["m_flow"] = float(bhe.m_flow_borehole)
    what, val = change["what"], change["value"]
    coax = case["kind"] == "COAXIAL"
    if what == "pipe_k":            # double-U: the tubes; coaxial: the OUTER pipe
        if coax:
            bhe.pipe.k = [bhe.pipe.k[0], val]
            c1["k_p"] = [case["k_p"][0], val]
        else:
            bhe.pipe.k = val
            c1["k_p"] = val
    elif what == "pipe_k_inner":
        bhe.pipe.k = [val, bhe.pipe.k[1]]
        c1["k_p"] = [val, case["k_p"][1]]
    elif what == "fluid":
        t_new = val[2] if len(val) > 2 else 20.0
        bhe.fluid = GHEFluid(fluid_str=val[0], percent=val[1], temperature=t_new)
        c1["fluid"] = list(val[:2])
        c1["fluid_temp"] = t_new
    elif what == "rough":
        bhe.pipe.roughness = val
        if coax:
            bhe.roughness = val
        c1["rough"] = val
    elif what == "H":
        bhe.b.H = val
        c1["H"] = val
    elif what == "k_g":
        bhe.grout.k = val
        bhe.k_g = val
        c1["k_g"] = val
    else:
        raise ValueError(what)
    if what != "H":
        bhe.calc_fluid_pipe_resistance()
        if coax:
            bhe.update_thermal_resistances(bhe.R_ff, bhe.R_fp)
        else:
            bhe.update_thermal_resistances(bhe.R_fp)
    return c1


def _history_worker(job):
    """One exchanger object: convert, change an ingredient, convert again.  Returns [first, second] results and the
    case describing the final state."""
    try:
        c0, change = job["initial"], job["change"]
        bhe = build_exchanger(c0)
        r0 = run_impl(c0, bhe)
        c1 = apply_change(bhe, c0, change)
        r1 = run_impl(c1, bhe)
        return {"r0": r0, "r1": r1, "final": c1}
    except Exception as e:
        import traceback
        return {"harness_error": f"{type(e).__name__}: {e}", "tb": traceback.format_exc()[-1500:]}


def _sequence_worker(seq):
    """Different exchangers converted one after the other in ONE process."""
    try:
        return [run_impl(c) for c in seq]
    except Exception as e:
        import traceback
        return {"harness_error": f"{type(e).__name__}: {e}", "tb": traceback.format_exc()[-1500:]}


# ----------------------------------------------------------------------------------------- manager-level route
STD_DU = {"r_out": 0.04216 / 2, "r_in": 0.03404 / 2, "s": 0.01856}                       # what the job hands to the manager's setters
STD_CX = {"r_inner": [0.0442 / 2, 0.050 / 2], "r_outer": [0.0974 / 2, 0.110 / 2]}


def manager_jobs(rng, n):
    """User-level design projects: design method x flow specification x exchanger kind x fluid."""
    geoms = [("RECTANGLE", 20.0, 20.0, 5.0, 10.0), ("NEARSQUARE", 5.0, 20.0), ("RECTANGLE", 30.0, 15.0, 5.0, 7.5), ("NEARSQUARE", 6.0, 24.0)]
    pipes = ["DOUBLEUTUBEPARALLEL", "COAXIAL", "DOUBLEUTUBESERIES"]
    jobs = []
    for i in range(n):
        ft = "SYSTEM" if i % 2 == 0 else "BOREHOLE"
        fluid = list(FLUIDS[(i * 3) % len(FLUIDS)])
        jobs.append({"geom": list(geoms[(i // 2) % len(geoms)]), "flow_type": ft, "pipe": pipes[(i + i // 4) % 3], "fluid": fluid,
                     "fluid_temp": fluid_temperature(rng, fluid) if i >= 4 else 20.0,
                     "flow": round(rng.uniform(3.0, 8.0), 2) if ft == "SYSTEM" else round(rng.uniform(0.3, 0.9), 3),
                     "k_p": round(rng.uniform(0.3, 0.6), 3), "k_g": round(rng.uniform(0.8, 2.0), 3), "k_s": round(rng.uniform(1.5, 3.0), 3),
                     "scale": round(rng.uniform(0.15, 0.35), 3)})
    return jobs


def _manager_worker(job):
    """GHEManager -> find_design() for a double-U / coaxial project; then the equivalent tube the short-time model was
    given (`ghe.bhe_eq`) is judged against the USER-level inputs and the per-borehole flow F (borehole) or F/N (system)."""
    try:
        phys = {"fluid": tuple(job["fluid"]), "fluid_temp": job["fluid_temp"], "grout": (job["k_g"], 3901000.0), "soil": (job["k_s"], 2343493.0, 18.3),
                "pipe_k": job["k_p"], "pipe_rho_cp": 1542000.0, "borehole": (100.0, 2.0, 0.14), "flow": job["flow"]}
        cfg = {"phys": phys, "pipe": job["pipe"], "loads": [x * job["scale"] for x in ghelib.atlanta_loads()], "months": 12, "max_eft": 35.0,
               "min_eft": -8.0 if job["fluid"][0] != "Water" else 3.0, "max_h": 135.0, "min_h": 60.0, "geom": tuple(job["geom"]), "flow": job["flow"],
               "flow_type": job["flow_type"], "cont": True}
        with ghelib.quiet():
            m = ghelib.build_manager(cfg)
            try:
                m.find_design()
            except ValueError as e:
                return {"search_failed": str(e)[:100]}
        ghe = m._search.ghe
        n_bh = len(ghe.gFunction.bore_locations)
        eq = ghe.bhe_eq
        per_bh = job["flow"] if job["flow_type"] == "BOREHOLE" else job["flow"] / n_bh
        case = {"kind": job["pipe"], "dia": 0.14, "H": float(ghe.bhe.b.H), "D": 2.0, "fluid": list(job["fluid"]), "fluid_temp": job["fluid_temp"],
                "flow": per_bh, "k_g": job["k_g"], "k_s": job["k_s"], "rough": 1.0e-6}
        if job["pipe"] == "COAXIAL":
            case.update(r_inner=list(STD_CX["r_inner"]), r_outer=list(STD_CX["r_outer"]), k_p=[job["k_p"], job["k_p"]])
        else:
            case.update(STD_DU, k_p=job["k_p"])
        ref = run_impl(case)          # fresh exchanger built from the user-level inputs + its independent oracle
        got = {"r_in": float(eq.pipe.r_in), "r_out": float(eq.pipe.r_out), "k_p": float(eq.pipe.k), "k_g": float(eq.grout.k), "r_b": float(eq.b.r_b),
               "s": float(eq.pipe.s), "R_fp": float(eq.R_fp), "R_f": float(eq.R_f), "h_f": float(eq.h_f), "H": float(eq.b.H), "D": float(eq.b.D),
               "m_flow": float(eq.m_flow_borehole), "rough": float(eq.pipe.roughness)}
        return {"case": case, "n_bh": n_bh, "ref": ref, "single": got, "rb_single": float(eq.calc_effective_borehole_resistance()),
                "rb_orig": float(ghe.bhe.calc_effective_borehole_resistance()), "m_flow_bhe": float(ghe.bhe.m_flow_borehole),
                "same_tube_in_radial_model": ghe.radial_numerical.single_u_tube is eq, "search": type(m._search).__name__}
    except Exception as e:
        import traceback
        return {"harness_error": f"{type(e).__name__}: {e}", "tb": traceback.format_exc()[-1500:]}


def fresh_map(fn, items, workers=16):
    """Process-pool map with ONE task per process: every conversion starts in a process that has never converted
    anything (so a single case replays alone, and process-wide state is exercised only by the sequence stream)."""
    import multiprocessing as mp

    if not items:
        return []
    with mp.get_context("fork").Pool(min(workers, len(items)), maxtasksperchild=1) as p:
        return p.map(fn, items, chunksize=1)


CMP_FIELDS = ("r_in", "r_out", "k_p", "k_g", "r_b", "s", "R_fp", "R_f", "h_f", "H", "D", "m_flow", "rough")


def conversion_diff(ra, rb, tol=1e-10):
    """Fields in which two conversions of the same exchanger state differ (None if they agree)."""
    if ("single" in ra) != ("single" in rb):
        return [f"one raised ({ra.get('raised')}/{rb.get('raised')})"]
    if "single" not in ra:
        return None if ra.get("raised") == rb.get("raised") else [f"raised {ra.get('raised')} vs {rb.get('raised')}"]
    d = []
    for k in CMP_FIELDS:
        if not close(ra["single"][k], rb["single"][k], tol):
            d.append(f"{k}: {ra['single'][k]!r} vs {rb['single'][k]!r}")
    for k in ("rb_single", "rb_orig"):
        if not close(ra[k], rb[k], 1e-9):
            d.append(f"{k}: {ra[k]!r} vs {rb[k]!r}")
    for k, a, b in zip(("vol_fluid", "vol_pipe", "resist_conv", "resist_pipe"), ra["vols"], rb["vols"]):
        if not close(a, b, tol):
            d.append(f"{k}: {a!r} vs {b!r}")
    if len(ra["calls"]) != len(rb["calls"]):
        d.append(f"solve_root calls: {len(ra['calls'])} vs {len(rb['calls'])}")
    else:
        for n, (ca, cb) in enumerate(zip(ra["calls"], rb["calls"])):
            for k in ("lower", "upper", "ret"):
                if not close(ca.get(k, float("nan")), cb.get(k, float("nan")), tol):
                    d.append(f"solve_root#{n}.{k}: {ca.get(k)!r} vs {cb.get(k)!r}")
    return d or None


def bulk_failures(c, r, ref):
    """C15 predicates on conversion `r` for the exchanger state `c` (independent oracle inside r), relative to what a
    fresh conversion `ref` of the same state achieves (known clamp findings hit both alike)."""
    if "single" not in r:
        return [f"to_single raised {r.get('raised')}"] if "single" in ref else []
    sg, orc = r["single"], r["oracle"]
    out = []
    of, ow = oracle_volumes(c)
    gf = 2 * PI * core.frac(sg["r_in"]) ** 2
    gw = 2 * PI * (core.frac(sg["r_out"]) ** 2 - core.frac(sg["r_in"]) ** 2)
    if abs(gf - of) / of > VOL_TOL:
        out.append(f"fluid volume {float(gf)!r} vs {float(of)!r}")
    if abs(gw - ow) / ow > VOL_TOL:
        out.append(f"pipe-wall volume {float(gw)!r} vs {float(ow)!r}")
    if sg["H"] != c["H"] or sg["D"] != c["D"] or not close(sg["m_flow"], r["m_flow"], 1e-15):
        out.append(f"borehole length/depth/flow H={sg['H']} D={sg['D']} m={sg['m_flow']} vs {c['H']}, {c['D']}, {r['m_flow']}")
    vf, vp, rc, rp = r["ovols"]
    target = rc + rp
    kfin = sg["k_p"]
    delta = 1.01 * (1e-6 + 1e-6 * kfin)
    allowed = (orc["c_log"] / kfin) * delta / (kfin - delta) if kfin > delta else float("inf")
    err = abs(sg["R_fp"] - target)
    ref_err = abs(ref["single"]["R_fp"] - target) if "single" in ref else float("inf")
    if err > allowed + 1e-12 * target and err > ref_err * (1 + 1e-6) + 1e-12 * target:
        out.append(f"R_fp' {sg['R_fp']!r} vs R_conv+R_pipe {target!r} (rel {err / target:.3g}; a fresh conversion of the same exchanger is off by {ref_err / target:.3g})")
    if "single" in ref:
        e1 = abs(r["rb_single"] - r["rb_orig"]) / r["rb_orig"]
        e2 = abs(ref["rb_single"] - ref["rb_orig"]) / ref["rb_orig"]
        if e1 > RB_TOL and e1 > e2 * (1 + 1e-6) + 1e-9:
            out.append(f"R_b' {r['rb_single']!r} vs R_b {r['rb_orig']!r} (rel {e1:.3g}; fresh conversion: {e2:.3g})")
    return out


# ----------------------------------------------------------------------------------------- solve_root alone
def solve_root_cases(rng, n):
    """Synthetic objectives for utilities.solve_root: all sign patterns, zeros, scalar kinds, default bounds."""
    cases = []
    vals = [Fraction(-3), Fraction(-1, 2), Fraction(0), Fraction(1, 4), Fraction(5)]
    for numpy in (0, 1):
        for a in vals:
            for b in vals:
                for dflt in (0, 1, 2):
                    cases.append({"numpy": numpy, "f_lo": a, "f_hi": b, "defaults": dflt, "x": Fraction(3, 2)})
    for _ in range(n):
        a = Fraction(rng.randrange(-2000, 2001), 1000) * rng.choice([0, 1, 1, 1, 1, 1])
        b = Fraction(rng.randrange(-2000, 2001), 1000) * rng.choice([0, 1, 1, 1, 1, 1])
        cases.append({"numpy": rng.randrange(2), "f_lo": a, "f_hi": b, "defaults": rng.randrange(3),
                      "x": Fraction(rng.randrange(1, 4000), 1000)})
    return cases


def run_solve_root(c):
    """Real utilities.solve_root on a linear objective through (lo, f_lo), (hi, f_hi) (exactly representable data)."""
    import numpy as np
    import ghedesigner.utilities as U

    x = float(c["x"])
    lo_given = None if c["defaults"] in (1, 2) else x / 4.0
    hi_given = None if c["defaults"] == 2 else x * 3.0
    if c["defaults"] == 1:
        lo_given = None
    lo = x / 100.0 if lo_given is None else lo_given
    hi = x * 10.0 if hi_given is None else hi_given
    flo, fhi = float(c["f_lo"]), float(c["f_hi"])
    ev = []

    def f(k):
        v = flo if k == lo else fhi if k == hi else flo + (fhi - flo) * (k - lo) / (hi - lo)
        ev.append(float(k))
        return np.float64(v) if c["numpy"] else float(v)

    try:
        with np.errstate(all="ignore"):
            r = U.solve_root(x, f, lower=lo_given, upper=hi_given)
        return {"ret": float(r), "n_ev": len(ev), "last": ev[-1], "lo": lo, "hi": hi, "lo_given": lo_given, "hi_given": hi_given}
    except Exception as e:
        return {"raised": type(e).__name__, "n_ev": len(ev), "lo": lo, "hi": hi, "lo_given": lo_given, "hi_given": hi_given}


# ----------------------------------------------------------------------------------------- oracles
def oracle_volumes(case):
    """(fluid, wall) cross-section per metre in exact rationals of the input doubles and of the double pi."""
    f = core.frac
    if case["kind"] == "COAXIAL":
        rii, rio = map(f, case["r_inner"])
        roi, roo = map(f, case["r_outer"])
        return PI * (rii ** 2 + (roi ** 2 - rio ** 2)), PI * ((rio ** 2 - rii ** 2) + (roo ** 2 - roi ** 2))
    ri, ro = f(case["r_in"]), f(case["r_out"])
    return 4 * PI * ri ** 2, 4 * PI * (ro ** 2 - ri ** 2)


def fits(sg):
    """Do the two equivalent tubes lie inside the (possibly enlarged) borehole without overlapping?"""
    (x0, y0), (x1, y1) = sg["pos"]
    ro, rb = sg["r_out"], sg["r_b"]
    inside = all(math.hypot(x, y) + ro <= rb * (1 + 1e-12) for x, y in sg["pos"])
    apart = math.hypot(x1 - x0, y1 - y0) >= 2 * ro * (1 - 1e-12)
    return inside, apart


# ----------------------------------------------------------------------------------------- main
def run(ctx: core.Ctx):
    import ghedesigner.borehole_heat_exchangers as B

    ctx.rule = ("random double-U (series/parallel), coaxial and single-U exchangers that fit their borehole (diameter 0.075-0.30 m, "
                "SDR 7-21 / thin-walled 0.6-10 % / thick walls, 5 fluids x 2 concentrations, 0.015-2 L/s i.e. laminar to turbulent, "
                "k_grout 0.4-3, k_soil 0.5-5, k_pipe 0.03-20, coaxial inner/outer pipes of different material in 3 of 4 cases), plus corpus, "
                "each converted in a process of its own; call histories on ONE exchanger object (convert, change pipe k / fluid / roughness / "
                "H / k_grout at unchanged flow, convert again: compared with a fresh conversion of the final state); sequences of 2-4 DIFFERENT "
                "exchangers converted in ONE process (pipe-conductivity solutions > 10x apart in both orders: compared with fresh-process "
                "conversions); fluid design temperature -5..35 C (antifreeze below 0 C in ~1/3 of the cases), every reference property from "
                "pygfunction's own Fluid for the user-level (name, %, T); manager route: GHEManager rectangle / near-square x borehole / system "
                "flow x double-U / coaxial -> find_design -> ghe.bhe_eq judged against the user inputs and the per-borehole flow F or F/N; "
                "distinct = distinct input dicts / histories / sequences; non-trivial = a double-U/coaxial conversion that ran "
                "both root solves, a history, a sequence (single-U identity and solve_root sign-pattern cases are counted in the histogram)")
    ctx.trusted_base += [
        "translator plug-in translate/gen_equivtube.py (constants + 3 structural facts read from borehole_heat_exchangers.py / utilities.py; it also "
        "pins that the conversion functions, their classes and modules keep no state: no attribute/item assignment on self, a class or the module, "
        "no __dict__/getattr/setattr/global, no class-level or module-level variables, no decorators)",
        "hand-written scalar-polymorphic model Model/EquivTube.lean; its Float instantiation is tied to the code by differential runs (1e-12), "
        "its Rat instantiation of solve_root / enlarge by exact comparison; the theorems are about the R instantiation of the same definitions",
        "pygfunction (convection correlations, multipole effective borehole resistance), scipy.optimize.brentq: parameters of the model; "
        "Brent's contract |k_last - root| <= xtol + rtol*k is measured on every real run against the closed-form root",
        "Lean Float = IEEE double (sqrt exactly rounded, log within 1 ulp of numpy's)",
    ]
    ctx.assumptions += [
        "R_b of the original and of tubes rebuilt from reported parameters is pygfunction's multipole value (opaque in the model)",
        "objective values of exactly 0 (sign() raising) are float coincidences excluded by the property; they are explicit error branches of the model and are exercised only on utilities.solve_root directly",
    ]
    ctx.extra["impl_file"] = B.__file__
    ctx.lean_prepare()
    quick = ctx.tier == "quick"
    rng = ctx.rng

    # ------------------------------------------------------------------ flags read from the source
    fl = ctx.driver(["et_flags"])
    flags = fl[0] if fl else None
    ctx.extra["source_flags(numpy,pipeResultUsed,pipeRefresh,groutResultUsed,groutRefresh)"] = flags

    # ------------------------------------------------------------------ utilities.solve_root alone (Rat model, exact)
    sr_cases = solve_root_cases(rng, 300 if quick else 3000)
    sr_impl = [run_solve_root(c) for c in sr_cases]
    lines = []
    for c, r in zip(sr_cases, sr_impl):
        lo = "none" if r["lo_given"] is None else core.rs(r["lo_given"])
        hi = "none" if r["hi_given"] is None else core.rs(r["hi_given"])
        b_ok = 1 if "ret" in r and r["n_ev"] > 2 else 0
        b_root = core.rs(r.get("ret", 0.0)) if b_ok else "0/1"
        b_last = core.rs(r.get("last", 0.0)) if b_ok else "0/1"
        lines.append(f"etq_solve {c['numpy']} {core.rs(float(c['x']))} {lo} {hi} {core.rs(float(c['f_lo']))} {core.rs(float(c['f_hi']))} "
                     f"{1 if b_ok or 'raised' not in r else 0} {b_root} {b_last}")
    out = ctx.driver(lines)
    for i, (c, r) in enumerate(zip(sr_cases, sr_impl)):
        sig = ("solve_root", c["numpy"], str(c["f_lo"]), str(c["f_hi"]), c["defaults"], str(c["x"]))
        ctx.case(sig, True, {"solve_root": {k: str(v) for k, v in c.items()}, "impl": r} if i in (3, 40) else None)
        # independent oracle for solve_root's contract
        slo, shi = (c["f_lo"] > 0) - (c["f_lo"] < 0), (c["f_hi"] > 0) - (c["f_hi"] < 0)
        if slo == 0 or shi == 0:
            want = "raise"
        elif slo != shi:
            want = "brent"
        else:
            want = "lower" if slo < 0 else "upper"
        ctx.count("solve_root:" + want)
        got = "raise" if "raised" in r else ("brent" if r["n_ev"] > 2 else "lower" if r["ret"] == r["lo"] else "upper" if r["ret"] == r["hi"] else "other")
        ok = got == want
        if ok and want == "brent":
            root = r["lo"] + (r["hi"] - r["lo"]) * float(c["f_lo"]) / float(c["f_lo"] - c["f_hi"])
            ok = abs(r["ret"] - root) <= 2 * (1e-6 + 1e-6 * abs(root))
        if ok and want == "raise":
            # which end raises first, and the exception type by scalar kind
            ok = r["raised"] == ("ValueError" if c["numpy"] else "ZeroDivisionError") and r["n_ev"] == 2
        if not ok:
            ctx.finding(f"solve_root-contract:{want}", f"utilities.solve_root: objective ends {c['f_lo']}, {c['f_hi']} expected {want}, got {got} ({r})",
                        {"function": "utilities.solve_root", "case": {k: str(v) for k, v in c.items()}, "impl": r})
        if out is not None:
            m = out[i].split()
            if "raised" in r:
                agree = m[0] == "raise" and m[1] == r["raised"]
            else:
                agree = m[0] == got and close(core.pr(m[1]), r["ret"], 1e-15) and (got == "brent" or close(core.pr(m[2]), r["hi"], 1e-15))
            if not agree:
                ctx.disagreements_checked += 1
                if "solve_root-correspondence" not in ctx.broken:
                    ctx.broken.append("solve_root-correspondence")
                    ctx.extra["solve_root_first_disagreement"] = {"case": {k: str(v) for k, v in c.items()}, "impl": r, "model": out[i]}

    # ------------------------------------------------------------------ conversions on real exchangers
    n = 360 if quick else 6000
    cases = corpus_cases()
    replay_job = None
    if ctx.replay:
        # ./check C15 --replay replays/C15-<seed>-<n>.json : run exactly that exchanger
        j = json.loads(open(ctx.replay).read())
        j = j.get("replay", j)
        if "history" in j or "sequence" in j or "manager_job" in j:
            replay_job = j
        j = j.get("case", j)
        if replay_job is not None:
            cases, n = [], 0
        elif isinstance(j, dict) and "kind" in j:
            cases, n = [j], 0
        else:
            ctx.infra(f"replay file {ctx.replay} holds no exchanger case")
    n_corpus = len(cases)
    for i in range(n):
        cases.append(gen_case(rng, i))
    n_whatif = 40 if quick else 400
    k = 0
    for c in cases:
        if c["kind"] != "SINGLEUTUBE" and k < n_whatif:
            c["whatif"] = True
            k += 1
    # ---- call histories on ONE object and sequences of DIFFERENT exchangers in ONE process; the reference of every
    #      state is its conversion in a fresh process (appended to the main stream, so it also gets every predicate)
    hist_jobs, seq_jobs = [], []
    if not ctx.replay:
        hist_jobs = corpus_histories()
        for i in range(40 if quick else 500):
            c0 = gen_case(rng, i, KINDS[i % 3])
            hist_jobs.append({"initial": c0, "change": gen_change(rng, c0)})
        seq_jobs = corpus_sequences() + [gen_sequence(rng, i) for i in range(30 if quick else 400)]
        seq_jobs = [[c for c in sq if c["kind"] != "SINGLEUTUBE"] for sq in seq_jobs]
        seq_jobs = [sq for sq in seq_jobs if len(sq) >= 2]
    elif replay_job is not None:
        if "history" in replay_job:
            hist_jobs = [replay_job["history"]]
        if "sequence" in replay_job:
            seq_jobs = [replay_job["sequence"]]
    seq_ref = []
    for sq in seq_jobs:
        seq_ref.append(list(range(len(cases), len(cases) + len(sq))))
        cases.extend(dict(c) for c in sq)
    hist_res = fresh_map(_history_worker, hist_jobs)
    hist_ref = []
    for hj, hr in zip(hist_jobs, hist_res):
        if "final" in hr:
            hist_ref.append(len(cases))
            cases.append(dict(hr["final"]))
        else:
            hist_ref.append(None)
    seq_res = fresh_map(_sequence_worker, seq_jobs)
    mgr_jobs = []
    if replay_job is not None and "manager_job" in replay_job:
        mgr_jobs = [replay_job["manager_job"]]
    elif not ctx.replay:
        mgr_jobs = manager_jobs(rng, 8 if quick else 48)
    mgr_res = fresh_map(_manager_worker, mgr_jobs)
    res = fresh_map(_worker, cases)

    # stage 1: volumes
    idx_multi, lines = [], []
    for i, (c, r) in enumerate(zip(cases, res)):
        if "harness_error" in r:
            ctx.infra(f"case {i}: {r['harness_error']}")
            continue
        if r.get("impl_file") and os.path.realpath(r["impl_file"]) != os.path.realpath(B.__file__):
            ctx.infra("worker imported a different ghedesigner")
        if "construct_error" in r:
            ctx.count("skipped:construction-failed")
            ctx.case(None, False)
            continue
        ctx.count("kind:" + c["kind"])
        re_ = r.get("re", 0.0)
        ctx.count("flow-regime:" + ("laminar(Re<2300)" if re_ < 2300 else "transitional(2300-4000)" if re_ < 4000 else "turbulent(Re>=4000)"))
        ctx.count("fluid:" + c["fluid"][0])
        ft_ = c.get("fluid_temp", 20.0)
        ctx.count("fluid-temp:" + ("antifreeze below 0 C" if ft_ < 0 else "0-10 C" if ft_ <= 10 else "20 C" if ft_ == 20 else "other"))
        if c["kind"] == "SINGLEUTUBE":
            ctx.case(json.dumps(c, sort_keys=True), False, {"case": c, "identity": r["identity"]} if i < n_corpus else None)
            ctx.count("single-u-identity-cases")
            if not r["identity"] or r["rb_after"] != r["rb_orig"]:
                ctx.finding("single-u-not-identity", "SingleUTube.to_single() is not the object itself / changed its R_b",
                            {"case": c, "impl": r})
            continue
        idx_multi.append(i)
        if c["kind"] == "COAXIAL":
            lines.append("et_vol_c " + " ".join(fb(v) for v in [*c["r_inner"], *c["r_outer"], r["hf"], c["k_p"][1]]))
        else:
            lines.append("et_vol_u 2 " + " ".join(fb(v) for v in [c["r_in"], c["r_out"], r["hf"], c["k_p"]]))
    mvols = ctx.driver(lines) if lines else []

    def disagree(stream, i, what):
        ctx.disagreements_checked += 1
        if stream not in ctx.broken:
            ctx.broken.append(stream)
            ctx.extra[stream + "_first"] = {"case": cases[i], "what": what}

    # stage 2: full model run on the model's own volumes
    lines2, idx2 = [], []
    for j, i in enumerate(idx_multi):
        c, r = cases[i], res[i]
        if mvols is None:
            break
        mv = [bf(x) for x in mvols[j].split()]
        r["model_vols"] = mv
        for name, a, b in zip(("vol_fluid", "vol_pipe", "resist_conv", "resist_pipe"), r["vols"], mv):
            if not close(a, b, 1e-12):
                disagree("volumes-correspondence", i, f"{name}: impl {a!r} model {b!r}")
        if "single" not in r:
            continue
        calls = r["calls"]
        p = calls[0] if len(calls) > 0 else None
        g = calls[1] if len(calls) > 1 else None

        def brent_args(call):
            if call is None or "ret" not in call:
                return 0, 0.0, 0.0
            if len(call["ev"]) > 2:
                return 1, call["ret"], call["ev"][-1][0]
            return 1, 0.0, 0.0

        p_ok, p_root, p_last = brent_args(p)
        g_ok, g_root, g_last = brent_args(g)
        wi = r.get("whatif") or {}
        args = [c["dia"] / 2.0, c["k_g"], *mv, r["hf_eq"]]
        tail = [r["rb_orig"], r.get("rb00", float("nan")), r.get("rb_lo", float("nan")), r.get("rb_hi", float("nan"))]
        lines2.append("et_full code " + " ".join(fb(v) for v in args) + f" {p_ok} {fb(p_root)} {fb(p_last)} " +
                      " ".join(fb(v) for v in tail) + f" {g_ok} {fb(g_root)} {fb(g_last)} {fb(r.get('rb_at_glast', float('nan')))}")
        idx2.append((i, "code"))
        if "root" in wi and flags:
            # repaired variant: same model with groutRefresh = true, Brent's answers from the harness's own what-if run
            fl_fix = flags[:4] + "1"
            lines2.append(f"et_full {fl_fix} " + " ".join(fb(v) for v in args) + f" {p_ok} {fb(p_root)} {fb(p_last)} " +
                          " ".join(fb(v) for v in tail) + f" 1 {fb(wi['root'])} {fb(wi['last'])} {fb(wi['rb_at_last'])}")
            idx2.append((i, "refresh"))
    mfull = ctx.driver(lines2) if lines2 else []
    model_of, model_fix = {}, {}
    if mfull is not None:
        for (i, which), line in zip(idx2, mfull):
            (model_of if which == "code" else model_fix)[i] = line

    worst = {"rfp_rel": 0.0, "rb_rel": 0.0, "vol_rel": 0.0, "brent_contract": 0.0, "rb_reported_params_rel": 0.0, "whatif_rb_rel": 0.0}
    for i in idx_multi:
        c, r = cases[i], res[i]
        replay = {"case": c, "impl": {k: v for k, v in r.items() if k not in ("calls",)}, "solve_root_calls": r.get("calls")}
        if "raised" in r:
            ctx.count("outcome:raised:" + r["raised"])
            ctx.case(json.dumps(c, sort_keys=True), True)
            ctx.finding(f"to_single-raises:{r['raised']}:{c['kind']}", f"to_single() raised {r['raised']}: {r.get('raised_msg')}", replay)
            continue
        if "oracle_error" in r:
            ctx.infra(f"oracle failed on case {i}: {r['oracle_error']}")
            continue
        sg, orc = r["single"], r["oracle"]
        calls = r["calls"]
        ctx.case(json.dumps({k: v for k, v in c.items() if k not in ("whatif", "name")}, sort_keys=True), len(calls) == 2,
                 {"case": c, "r_in'": sg["r_in"], "r_out'": sg["r_out"], "k_p'": sg["k_p"], "k_g'": sg["k_g"], "r_b'": sg["r_b"],
                  "R_b": r["rb_orig"], "R_b'": r["rb_single"]} if i < 3 or i == n_corpus else None)
        if len(calls) != 2:
            ctx.finding("solve_root-call-count", f"to_single made {len(calls)} solve_root calls, expected 2", replay)
            continue
        p, g = calls
        vf, vp, rc, rp = r["ovols"]         # independent bulk properties of the original (independent_bulk)
        target = rc + rp
        ctx.count("wall:" + ("equal-volume wall < 1 mm" if orc["r_po"] - orc["r_pi"] < 1e-3 else "equal-volume wall 1-3 mm" if orc["r_po"] - orc["r_pi"] < 3e-3 else "equal-volume wall >= 3 mm"))
        if c["kind"] == "COAXIAL":
            q = c["k_p"][0] / c["k_p"][1]
            ctx.count("coaxial-k:" + ("inner == outer" if q == 1 else "inner < outer/2" if q < 0.5 else "inner > 2 outer" if q > 2 else "within x2"))
        # (0) what `*_volumes()` hands to the conversion is the exchanger's own bulk properties
        for name, a, b in zip(("vol_fluid", "vol_pipe", "resist_conv", "resist_pipe"), r["vols"], r["ovols"]):
            if not close(a, b, 1e-10):
                fn = "concentric_tube_volumes" if c["kind"] == "COAXIAL" else "u_tube_volumes"
                ctx.finding(f"{fn}:{name}", f"{fn}() returns {name} = {a!r} but the exchanger's own radii / wall conductivities / convection "
                            f"coefficient give {b!r} (rel {abs(a - b) / abs(b):.3g})", replay)
        if c["kind"] != "COAXIAL" and r.get("n_pipes") != 2:
            ctx.finding("double-u-pipe-count", f"nPipes = {r.get('n_pipes')} for a double U-tube", replay)

        # ---------------- correspondence: model (Float instantiation) vs implementation
        if i in model_of:
            m = model_of[i].split()
            if m[0] != "ok":
                disagree("to_single-correspondence", i, f"model: {model_of[i]} but the implementation returned a tube")
            else:
                f = [bf(x) for x in m[1:8]] + [m[8]] + [bf(x) for x in m[9:14]] + [m[14]] + [bf(x) for x in m[15:20]] + [m[20]] + [bf(x) for x in m[21:25]]
                (m_rin, m_rout, m_kp0, m_rb, m_spacing, m_s, m_shank, m_enl, m_rf, m_lo, m_hi, m_flo, m_fhi, m_pbr, m_proot, m_kp, m_rfp,
                 m_glo, m_ghi, m_gbr, m_kg, m_ckg, m_crfp, m_rbp) = f
                p_br = "brent" if len(p["ev"]) > 2 else ("lower" if p["ret"] == p["lower"] else "upper")
                g_br = "brent" if len(g["ev"]) > 2 else ("lower" if g["ret"] == g["lower"] else "upper")
                pairs = [("r_in'", sg["r_in"], m_rin, 1e-12), ("r_out'", sg["r_out"], m_rout, 1e-12), ("k_p0", p["x"], m_kp0, 1e-11),
                         ("r_b'", sg["r_b"], m_rb, 1e-12), ("s", sg["s"], m_s, 1e-10), ("shank", abs(sg["pos"][1][0]), m_shank, 1e-11),
                         ("R_f'", sg["R_f"], m_rf, 1e-11), ("k_p_lower", p["lower"], m_lo, 1e-11), ("k_p_upper", p["upper"], m_hi, 1e-11),
                         ("objective_p(lower)", p["ev"][0][1], m_flo, 1e-9), ("objective_p(upper)", p["ev"][1][1], m_fhi, 1e-9),
                         ("solve_root_p result", p["ret"], m_proot, 1e-12), ("pipe.k", sg["k_p"], m_kp, 1e-12), ("R_fp'", sg["R_fp"], m_rfp, 1e-11),
                         ("objective_g(lower)", g["ev"][0][1], m_glo, 1e-7), ("objective_g(upper)", g["ev"][1][1], m_ghi, 1e-7),
                         ("grout.k", sg["k_g"], m_kg, 1e-12), ("k_g(pygfunction attr)", sg["k_g_pyg"], m_kg, 1e-12), ("R_b'", r["rb_single"], m_rbp, 1e-9)]
                for name, a, b, tol in pairs:
                    if name == "R_b'" and m_gbr == "brent":
                        tol = 1e-5     # root vs last evaluation differ by Brent's tolerance (only reachable once the objective refreshes)
                    absl = 1e-12 * abs(target) if name.startswith("objective_p") else (1e-9 * r["rb_orig"] if name.startswith("objective_g") else 0.0)
                    if not close(a, b, tol, absl):
                        disagree("to_single-correspondence", i, f"{name}: impl {a!r} model {b!r}")
                if (m_enl == "1") != (sg["r_b"] != c["dia"] / 2.0) or m_pbr != p_br or m_gbr != g_br:
                    # a branch decision may legitimately differ only when its argument is within rounding of the boundary
                    near = abs(m_spacing) < 1e-12 or abs(m_flo) < 1e-12 * target or abs(m_fhi) < 1e-12 * target or abs(m_glo) < 1e-9 * r["rb_orig"]
                    if near:
                        ctx.count("near-boundary")
                    else:
                        disagree("to_single-correspondence", i, f"branches: impl enlarged={sg['r_b'] != c['dia'] / 2.0} pipe={p_br} grout={g_br}; "
                                                                 f"model enlarged={m_enl} pipe={m_pbr} grout={m_gbr}")
                # Rat instantiation of the enlargement rule on the implementation's own r_po'
                r["_enl_line"] = f"etq_enl {core.rs(c['dia'] / 2.0)} {core.rs(sg['r_out'])}"
        ctx.count("pipe-solve:" + ("brent" if len(p["ev"]) > 2 else "lower" if p["ret"] == p["lower"] else "upper"))
        ctx.count("grout-solve:" + ("brent" if len(g["ev"]) > 2 else "lower" if g["ret"] == g["lower"] else "upper"))
        ctx.count("borehole:" + ("enlarged" if sg["r_b"] != c["dia"] / 2.0 else "unchanged"))

        # ---------------- predicate on the implementation's own outputs
        # (a) volumes, exact rationals
        of, ow = oracle_volumes(c)
        gf = 2 * PI * core.frac(sg["r_in"]) ** 2
        gw = 2 * PI * (core.frac(sg["r_out"]) ** 2 - core.frac(sg["r_in"]) ** 2)
        ef, ew = abs(gf - of) / of, abs(gw - ow) / ow
        worst["vol_rel"] = max(worst["vol_rel"], float(ef), float(ew))
        if ef > VOL_TOL:
            ctx.finding(f"fluid-volume:{c['kind']}", f"fluid volume per metre {float(gf)!r} vs original {float(of)!r} (rel {float(ef):.3e})", replay)
        if ew > VOL_TOL:
            ctx.finding(f"wall-volume:{c['kind']}", f"pipe-wall volume per metre {float(gw)!r} vs original {float(ow)!r} (rel {float(ew):.3e})", replay)
        if sg["r_in"] != sg["r_in_pyg"] or sg["r_out"] != sg["r_out_pyg"] or sg["k_g"] != sg["k_g_pyg"]:
            ctx.finding("attributes-inconsistent", "pipe.r_in/r_out/grout.k differ from the pygfunction attributes of the same object", replay)
        # (b) it is a single U-tube of the same borehole length / flow that fits
        inside, apart = fits(sg)
        rb0 = c["dia"] / 2.0
        need_enl = 2 * rb0 - 4 * orc["r_po"] <= 0
        if sg["is_single"] != "SingleUTube" or len(sg["pos"]) != 2 or sg["H"] != c["H"] or sg["D"] != c["D"] or sg["m_flow"] != r["m_flow"]:
            ctx.finding("not-a-single-u-tube-of-the-same-borehole", f"type {sg['is_single']} H {sg['H']} D {sg['D']}", replay)
        if not (inside and apart):
            ctx.finding(f"tubes-do-not-fit:{'enlarged' if need_enl else 'original'}-borehole", f"inside={inside} apart={apart} r_b'={sg['r_b']} r_out'={sg['r_out']} pos={sg['pos']}", replay)
        if (not need_enl and abs(2 * rb0 - 4 * orc["r_po"]) > 1e-12) and sg["r_b"] != rb0:
            ctx.finding("borehole-enlarged-needlessly", f"r_b {rb0} -> {sg['r_b']} although 2 r_b - 4 r_out' = {2 * rb0 - 4 * orc['r_po']} > 0", replay)
        if need_enl and abs(2 * rb0 - 4 * orc["r_po"]) > 1e-12:
            want_rb = (4 * core.frac(orc["r_po"]) - core.frac(rb0)) * Fraction(6, 5)
            if not close(sg["r_b"], float(want_rb), 1e-12):
                ctx.finding("enlargement-rule", f"enlarged r_b' {sg['r_b']} but the rule gives {float(want_rb)}", replay)
        # (c) the original is untouched
        oa = r["orig_after"]
        kp_in = list(c["k_p"]) if isinstance(c["k_p"], list) else [c["k_p"]]
        if oa["r_b"] != rb0 or oa["k_g"] != c["k_g"] or oa["rb"] != r["rb_orig"] or oa["k_p"] != kp_in:
            ctx.finding("original-modified-by-conversion", f"after to_single the original has r_b {oa['r_b']} k_g {oa['k_g']} R_b {oa['rb']} k_p {oa['k_p']} "
                                                           f"(before: {rb0}, {c['k_g']}, {r['rb_orig']}, {kp_in})", replay)
        # (d) R_fp' = R_conv + R_pipe, within what Brent's contract allows for the reported pipe.k
        kfin = sg["k_p"]
        rfp_from_k = orc["r_f_eq"] + orc["c_log"] / kfin            # closed form, harness arithmetic
        if not close(sg["R_fp"], rfp_from_k, 1e-10):
            ctx.finding("rfp-attribute-inconsistent", f"R_fp attribute {sg['R_fp']} but R_f' + ln(ro/ri)/(2 pi k) = {rfp_from_k} for the reported pipe.k", replay)
        delta = 1.01 * (1e-6 + 1e-6 * kfin)
        allowed = (orc["c_log"] / kfin) * delta / (kfin - delta) if kfin > delta else float("inf")
        err = abs(sg["R_fp"] - target)
        worst_rel = err / target
        has_root = orc["r_f_eq"] < target
        k_star = orc["c_log"] / (target - orc["r_f_eq"]) if has_root else None
        in_bracket = has_root and p["lower"] <= k_star <= p["upper"]
        # the bracket the known findings are about is the documented one, [k_p'/100, 10 k_p'] around the harness's own k_p':
        # a clamp although the root lies inside THAT bracket is not a known finding
        doc_lo, doc_hi = orc["kp0"] / 100.0, orc["kp0"] * 10.0
        in_doc_bracket = has_root and doc_lo * (1 + 1e-9) < k_star < doc_hi * (1 - 1e-9)
        if has_root and len(p["ev"]) == 2 and in_doc_bracket:
            in_bracket = True      # forces the generic rfp-mismatch report below
        if len(p["ev"]) > 2 and k_star is not None:
            worst["brent_contract"] = max(worst["brent_contract"], abs(p["ev"][-1][0] - k_star) / (1e-6 + 1e-6 * k_star))
        if err > allowed + 1e-12 * target:
            slo, shi = p["ev"][0][1], p["ev"][1][1]
            if slo > 0 and shi > 0 and orc["r_f_eq"] >= target and len(p["ev"]) == 2:
                ctx.count("F10-signature:" + c["kind"])
                ctx.finding(F10_KEY, f"R_fp' {sg['R_fp']:.6g} vs target {target:.6g} (rel {worst_rel:.3g}): R_f' {orc['r_f_eq']:.6g} >= target, objective > 0 at both "
                            f"bracket ends, pipe.k clamped to {kfin:.6g} [{c['kind']}, flow {c['flow']} L/s]", replay)
            elif len(p["ev"]) == 2 and slo < 0 and shi < 0 and p["ret"] == p["lower"] and kfin == p["upper"] and not in_bracket:
                # root below k_p'/100: solve_root returns the lower bound, the code discards it, pipe.k stays at the last evaluation
                ctx.count("lower-clamp-signature:" + c["kind"])
                at_lower = orc["r_f_eq"] + orc["c_log"] / p["lower"]
                ctx.finding(LOWER_KEY, f"R_fp' {sg['R_fp']:.6g} vs target {target:.6g} (rel {worst_rel:.3g}): root k*={k_star:.6g} below bracket "
                            f"[{p['lower']:.4g},{p['upper']:.4g}]; solve_root returned the lower bound {p['ret']:.6g} but pipe.k is left at the upper bound "
                            f"{kfin:.6g} (R_fp at the lower bound would be {at_lower:.6g}) [{c['kind']}, flow {c['flow']} L/s]", replay)
            elif len(p["ev"]) == 2 and slo > 0 and shi > 0 and has_root and not in_bracket and kfin == p["upper"]:
                ctx.count("root-above-bracket-signature:" + c["kind"])
                ctx.finding(ABOVE_KEY, f"R_fp' {sg['R_fp']:.6g} vs target {target:.6g} (rel {worst_rel:.3g}): root k*={k_star:.6g} above bracket "
                            f"[{p['lower']:.4g},{p['upper']:.4g}] although R_f' {orc['r_f_eq']:.6g} < target; pipe.k clamped to {kfin:.6g} [{c['kind']}]", replay)
            else:
                ctx.finding(f"rfp-mismatch:{c['kind']}", f"R_fp' {sg['R_fp']!r} vs R_conv+R_pipe {target!r}: |diff| {err:.3e} > allowed {allowed:.3e}; "
                            f"pipe solve evaluations {p['ev'][:2]} returned {p['ret']!r}, pipe.k {kfin!r}", replay)
        else:
            worst["rfp_rel"] = max(worst["rfp_rel"], worst_rel)
        # (e) effective borehole resistance within 0.1 %
        rel = abs(r["rb_single"] - r["rb_orig"]) / r["rb_orig"]
        rp_rel = abs(r["rb_reported_params"] - r["rb_single"]) / r["rb_single"]
        worst["rb_reported_params_rel"] = max(worst["rb_reported_params_rel"], rp_rel)
        f9_sig = len(g["ev"]) == 2 and g["ev"][0][1] == g["ev"][1][1] and g["ret"] in (g["lower"], g["upper"])
        if rel > RB_TOL or rp_rel > RB_TOL:
            worst["rb_rel"] = max(worst["rb_rel"], rel)
            ctx.count("rb-off-by:" + ("<1%" if rel < 0.01 else "1-5%" if rel < 0.05 else "5-20%" if rel < 0.2 else ">=20%"))
            if f9_sig:
                ctx.count("F9-signature")
                ctx.finding(F9_KEY, f"R_b' {r['rb_single']:.6g} vs R_b {r['rb_orig']:.6g} (rel {rel:.3g}); grout objective {g['ev'][0][1]:.6g} at both "
                            f"bracket ends, grout.k clamped to {g['ret']}; a tube rebuilt from the reported parameters has R_b {r['rb_reported_params']:.6g} "
                            f"[{c['kind']}]", replay)
            else:
                ctx.finding(f"rb-mismatch:{c['kind']}", f"R_b' {r['rb_single']!r} vs R_b {r['rb_orig']!r} (rel {rel:.3g}), reported-parameter rebuild "
                            f"{r['rb_reported_params']!r}; grout solve evaluations {g['ev'][:3]}", replay)
        else:
            ctx.count("rb-within-0.1%")
        # (f) repaired variant (what-if): the model with groutRefresh=1 and the harness's own Brent run
        wi = r.get("whatif")
        if wi:
            if "root" in wi:
                wrel = abs(wi["rb_at_root"] - r["rb_orig"]) / r["rb_orig"]
                worst["whatif_rb_rel"] = max(worst["whatif_rb_rel"], wrel)
                ctx.count("whatif-refresh:matched" if wrel <= RB_TOL else "whatif-refresh:unmatched")
                if i in model_fix:
                    m = model_fix[i].split()
                    if m[0] != "ok" or m[20] != "brent" or not close(bf(m[21]), wi["root"], 1e-12) or not close(bf(m[24]), wi["rb_at_last"], 1e-12):
                        disagree("refresh-variant-correspondence", i, f"model(groutRefresh=1) {model_fix[i]} vs what-if {wi}")
            else:
                ctx.count("whatif-refresh:no-k_g-in-[0.01,7]-matches")

    # ------------------------------------------------------------------ call histories on one exchanger object
    for hj, hr, ri in zip(hist_jobs, hist_res, hist_ref):
        if "harness_error" in hr or ri is None:
            ctx.infra(f"history job failed: {hr.get('harness_error')}")
            continue
        c1, r1, ref = hr["final"], hr["r1"], res[ri]
        what = hj["change"]["what"]
        ctx.count(f"history:{hj['initial']['kind']}:change-{what}")
        ctx.case(("history", json.dumps(hj, sort_keys=True)), True, {"history": hj} if len(ctx.samples) < 5 and what == "pipe_k" else None)
        if "harness_error" in ref or "construct_error" in ref or "construct_error" in r1:
            ctx.count("history:skipped")
            continue
        d = conversion_diff(r1, ref)
        if d is None:
            ctx.count("history:second-conversion == fresh conversion of the final state")
            continue
        replay = {"case": c1, "history": hj, "second_conversion": {k: v for k, v in r1.items() if k != "calls"},
                  "fresh_conversion_of_final_state": {k: v for k, v in ref.items() if k != "calls"}, "differences": d}
        fails = bulk_failures(c1, r1, ref)
        desc = (f"exchanger {hj['initial']['kind']} converted, then {what} := {hj['change']['value']} at unchanged flow, converted again: "
                f"the second conversion differs from a fresh conversion of the same final state ({'; '.join(d[:3])})")
        if fails:
            ctx.finding(f"history-stale-conversion:{what}", desc + " and violates: " + "; ".join(fails[:3]), replay)
        else:
            ctx.disagreements_checked += 1
            if "history-correspondence" not in ctx.broken:
                ctx.broken.append("history-correspondence")
                ctx.extra["history-correspondence_first"] = {"history": hj, "differences": d[:6]}

    # ------------------------------------------------------------------ sequences of different exchangers in one process
    for sq, sr, refs in zip(seq_jobs, seq_res, seq_ref):
        if isinstance(sr, dict):
            ctx.infra(f"sequence job failed: {sr.get('harness_error')}")
            continue
        ks = [res[i]["single"]["k_p"] for i in refs if "single" in res[i]]
        ratio = max(ks) / min(ks) if len(ks) >= 2 and min(ks) > 0 else 1.0
        ctx.count("sequence:pipe-conductivity solutions " + ("> 100x apart" if ratio > 100 else "10-100x apart" if ratio > 10 else "within 10x"))
        ctx.case(("sequence", json.dumps(sq, sort_keys=True)), True)
        for pos_, (c, r, i) in enumerate(zip(sq, sr, refs)):
            ref = res[i]
            if "harness_error" in ref or "construct_error" in ref or "construct_error" in r:
                continue
            d = conversion_diff(r, ref)
            if d is None:
                ctx.count("sequence:member == its fresh-process conversion")
                continue
            replay = {"case": c, "sequence": sq, "position": pos_, "in_sequence": {k: v for k, v in r.items() if k != "calls"},
                      "fresh_process": {k: v for k, v in ref.items() if k != "calls"}, "differences": d,
                      "solve_root_calls_in_sequence": r.get("calls"), "solve_root_calls_fresh": ref.get("calls")}
            fails = bulk_failures(c, r, ref)
            desc = (f"{c['kind']} converted as number {pos_ + 1} of {len(sq)} exchangers in one process differs from its conversion in a fresh "
                    f"process ({'; '.join(d[:3])})")
            if fails:
                ctx.finding(f"conversion-depends-on-previous-conversions:{'first' if pos_ == 0 else 'later'}-in-sequence", desc + " and violates: " + "; ".join(fails[:3]), replay)
            else:
                ctx.disagreements_checked += 1
                if "sequence-correspondence" not in ctx.broken:
                    ctx.broken.append("sequence-correspondence")
                    ctx.extra["sequence-correspondence_first"] = {"sequence": sq, "position": pos_, "differences": d[:6]}

    # ------------------------------------------------------------------ manager-level route (user inputs -> find_design -> ghe.bhe_eq)
    for mj, mr in zip(mgr_jobs, mgr_res):
        if "harness_error" in mr:
            ctx.infra(f"manager job failed: {mr['harness_error']}")
            continue
        tag = f"{mj['geom'][0]}:{mj['flow_type'].lower()}-flow"
        if "search_failed" in mr:
            ctx.count("manager-route:search-failed")
            continue
        ctx.count(f"manager-route:{tag}:{mj['pipe']}")
        ctx.case(("manager", json.dumps(mj, sort_keys=True)), True, {"manager_job": mj, "boreholes": mr["n_bh"], "R_fp_eq": mr["single"]["R_fp"]} if mj is mgr_jobs[0] else None)
        ref = mr["ref"]
        if "single" not in ref:
            ctx.count("manager-route:reference-unavailable")
            continue
        r = dict(ref, single=dict(ref["single"], **mr["single"]), rb_single=mr["rb_single"], rb_orig=mr["rb_orig"])
        d = [f"{k}: {mr['single'][k]!r} vs {ref['single'][k]!r}" for k in CMP_FIELDS if not close(mr["single"][k], ref["single"][k], 1e-9)]
        if not close(mr["m_flow_bhe"], ref["m_flow"], 1e-12):
            d.append(f"exchanger mass flow {mr['m_flow_bhe']!r} vs user-level per-borehole flow {ref['m_flow']!r}")
        if not mr["same_tube_in_radial_model"]:
            d.append("radial_numerical.single_u_tube is not ghe.bhe_eq")
        if not d:
            ctx.count("manager-route:bhe_eq == conversion of the exchanger the user specified")
            continue
        replay = {"case": mr["case"], "manager_job": mj, "boreholes": mr["n_bh"], "bhe_eq": mr["single"],
                  "conversion_of_specified_exchanger": {k: v for k, v in ref.items() if k != "calls"}, "differences": d}
        fails = bulk_failures(mr["case"], r, ref)
        desc = (f"GHEManager {mj['geom'][0]} design, {mj['flow']} L/s {mj['flow_type'].lower()} flow, {mj['pipe']}, {mj['fluid']} at {mj['fluid_temp']} C -> "
                f"{mr['n_bh']} boreholes: ghe.bhe_eq differs from the conversion of the exchanger the user specified ({'; '.join(d[:3])})")
        if fails:
            ctx.finding(f"manager-route-equivalent-tube:{tag}", desc + " and violates: " + "; ".join(fails[:3]), replay)
        else:
            ctx.disagreements_checked += 1
            if "manager-correspondence" not in ctx.broken:
                ctx.broken.append("manager-correspondence")
                ctx.extra["manager-correspondence_first"] = {"manager_job": mj, "differences": d[:6]}

    # Rat instantiation of the enlargement rule (exact) on every case
    enl = [(i, res[i]["_enl_line"]) for i in idx_multi if "_enl_line" in res[i]]
    if enl:
        eo = ctx.driver([l for _, l in enl])
        if eo is not None:
            for (i, _), line in zip(enl, eo):
                a = line.split()
                sg = res[i]["single"]
                if not close(sg["r_b"], float(core.pr(a[0])), 1e-13):
                    # r_out' reported by the implementation is the argument, so only a tie at spacing = 0 can differ
                    if abs(2 * cases[i]["dia"] / 2.0 - 4 * sg["r_out"]) > 1e-15:
                        disagree("enlarge-correspondence", i, f"r_b' impl {sg['r_b']!r} exact model {float(core.pr(a[0]))!r}")

    ctx.extra["worst"] = {k: float(f"{v:.4g}") for k, v in worst.items()}
    ctx.extra["worst_legend"] = ("rfp_rel: |R_fp'-target|/target over cases within the Brent bound; rb_rel: worst |R_b'-R_b|/R_b; "
                                 "brent_contract: |k_last-k*|/(xtol+rtol k*) (<= 1 means scipy's contract held); rb_reported_params_rel: "
                                 "R_b of a tube rebuilt from reported parameters vs reported R_b'; whatif_rb_rel: residual after a refreshed solve")
    ctx.programs = 6
    ctx.exhaustive = False
    if not quick:
        ctx.leanchecker(["GHEVerif.Props.C15", "GHEVerif.Lemmas.EquivTube", "GHEVerif.Model.EquivTube", "GHEVerif.Gen.EquivTubeConsts"])
