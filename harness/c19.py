"""C19 — Output tables label time correctly and echo inputs and selected field.

Proof: lean/GHEVerif/Props/C19.lean (time_convert_correct for all 8760 hours and for any
positive month table; hours_to_month closed form, formula on every month piece with both ends
included (continuity), month ends at integers, strict monotonicity on all rationals).
Tie to the code: month tables regenerated from output.py (Gen/Tables.lean) + the model run
against the real static methods on the same inputs + an independent datetime oracle.
"""
from __future__ import annotations

import datetime as dt
import types
from fractions import Fraction

import core
import ghelib

PROPERTY = "C19"
LEVEL = "proof"


def oracle_label(h):
    t = dt.datetime(2019, 1, 1) + dt.timedelta(hours=h)
    return (t.month, t.day, t.hour + 1)


def oracle_months(hours: Fraction) -> Fraction:
    """Elapsed fractional months of `hours` in a repeating 2019 calendar; month ends belong to
    the month they close (left-continuous pieces, value there is an integer either way)."""
    y, r = divmod(hours, 8760)
    if r == 0:
        return Fraction(12 * y)
    start = dt.datetime(2019, 1, 1)
    for m in range(1, 13):
        lo = (dt.datetime(2019, m, 1) - start).total_seconds() / 3600
        hi = ((dt.datetime(2019, m + 1, 1) if m < 12 else dt.datetime(2020, 1, 1)) - start).total_seconds() / 3600
        if lo < r <= hi:
            return 12 * y + (m - 1) + (r - Fraction(int(lo))) / Fraction(int(hi - lo))
    raise AssertionError


def files_worker(job):
    """Real designs through the manager, one after the other IN ONE PROCESS, each written with
    write_output_files into its own directory; returns what the written files say next to what went in."""
    import csv
    import json
    import os
    import shutil
    import tempfile
    from pathlib import Path

    os.environ["OMP_NUM_THREADS"] = "1"
    out = []
    base = Path(tempfile.mkdtemp(prefix="c19_", dir=os.environ.get("VERIF_SCRATCH", None)))
    try:
        m_prev = None
        for k, cfg in enumerate(job):
            rec = {"k": k, "geom": cfg["geom"][0]}
            try:
                with ghelib.quiet():
                    if cfg.get("reuse_manager") and m_prev is not None:
                        # the next scenario on the SAME manager (every setter called again), results prepared
                        # with the same labels as before
                        m = m_prev
                        ghelib.configure(m, cfg)
                        rec["reused_manager"] = True
                    else:
                        m = ghelib.build_manager(cfg)
                    m_prev = m
                    m.find_design()
                    if cfg.get("hourly_after"):
                        # the workflow design.py recommends: size with the hybrid time step, then validate hourly
                        from ghedesigner.enums import TimestepType
                        m._search.ghe.simulate(method=TimestepType.HOURLY)
                        rec["hourly_after"] = True
                    m.prepare_results("p", "n", "a", "i")
                    d = base / f"d{k}"
                    suffix = "" if k % 2 == 0 else (f"_run{k}" if k % 4 == 1 else f"_rev{k}.5")     # plain, with a suffix, with a suffix containing a dot
                    if k % 2 == 1:
                        d.mkdir(parents=True, exist_ok=True)      # an output directory that already exists
                        rec["preexisting_dir"] = True
                    m.write_output_files(d, suffix)
                rec["selected"] = [[float(x), float(y)] for x, y in m._search.selected_coordinates]
                rec["suffix"] = suffix
                rec["files"] = sorted(str(f.relative_to(d)) for f in d.rglob("*") if f.is_file())
                ghe = m._search.ghe
                rec["coords"] = [[float(x), float(y)] for x, y in ghe.gFunction.bore_locations]
                rec["H"] = float(ghe.bhe.b.H)
                g, gb = ghe.grab_g_function(ghe.B_spacing / float(ghe.bhe.b.H))
                rec["curve"] = [[float(a), float(b), float(c)] for a, b, c in zip(g.x, g.y, gb.y)]
                rec["times"] = [float(t) for t in ghe.times]
                rec["hp_eft"] = [float(t) for t in ghe.hp_eft]
                rec["suffix"] = suffix
                rd = lambda name: list(csv.reader(open(d / f"{name}{suffix}.csv", newline="")))  # noqa: E731
                rec["loadings"] = rd("Loadings")
                rec["borefield"] = rd("BoreFieldData")
                rec["gfunction"] = rd("Gfunction")
                rec["summary"] = json.loads((d / f"SimulationSummary{suffix}.json").read_text())["simulation_results"]
                rec["summary"].pop("monthly_temp_summary", None)
            except Exception as e:  # noqa: BLE001
                rec["error"] = f"{type(e).__name__}: {e}"[:300]
            out.append(rec)
    finally:
        shutil.rmtree(base, ignore_errors=True)
    return out


def file_jobs(rng, tier):
    """Small, quick designs of different methods and field sizes, several per process."""
    def cfg(kind, scale, months):
        phys = ghelib.default_physics()
        loads = [x * scale for x in ghelib.atlanta_loads()]
        geom = {"NEARSQUARE": ("NEARSQUARE", 5.0 + rng.randrange(0, 3), 40.0 + rng.randrange(0, 40)),
                "RECTANGLE": ("RECTANGLE", 60.0 + rng.randrange(0, 30), 30.0 + rng.randrange(0, 20), 4.0, 9.0)}[kind]
        return {"phys": phys, "pipe": "SINGLEUTUBE", "loads": loads, "months": months, "max_eft": 35.0, "min_eft": 5.0, "max_h": 135.0,
                "min_h": 60.0, "flow": phys["flow"], "geom": geom}
    def tiny(c):
        # a few hours carry very small non-zero loads: the table must echo them as given
        for h, v in ((17, 2.5e-4), (4000, -7e-5), (4001, 9.99e-4), (8000, -1e-9), (8759, 4e-6)):
            c["loads"][h] = v
        return c

    def rowwise_single():
        # RowWise on a lot AWAY from the origin, loads so small that a single borehole is enough
        phys = ghelib.default_physics()
        x0, y0 = 20.0 + rng.randrange(0, 10), 30.0 + rng.randrange(0, 10)
        prop = [[x0, y0], [x0 + 40.0, y0], [x0 + 40.0, y0 + 30.0], [x0, y0 + 30.0]]
        return {"phys": phys, "pipe": "SINGLEUTUBE", "loads": [x * 0.002 for x in ghelib.atlanta_loads()], "months": 12, "max_eft": 35.0, "min_eft": 5.0,
                "max_h": 135.0, "min_h": 60.0, "flow": phys["flow"], "geom": ("ROWWISE", None, 12.0, 10.0, 1.0, 10.0, -10.0, 10.0, prop, [])}

    n = 1 if tier == "quick" else 4
    return [[tiny(cfg("NEARSQUARE", rng.choice([0.02, 0.05]), 12)), {**cfg("RECTANGLE", rng.choice([0.08, 0.15]), 24), "hourly_after": True},
             {**cfg("NEARSQUARE", 0.1, 12), "reuse_manager": True}, rowwise_single()] for _ in range(n)]


def run(ctx: core.Ctx):
    from ghedesigner.output import OutputManager

    ctx.rule = ("ghe_time_convert: every hour 0..8759 (exhaustive); hours_to_month: random elapsed times up to 30 years at "
                "quarter-hour and arbitrary sub-hour resolution plus every month end and its two float neighbours; "
                "distinct = distinct inputs; non-trivial = all (each input exercises the month search)")
    ctx.trusted_base += [
        "translator translate/gen.py (month tables, HRS_IN_DAY from output.py/constants.py)",
        "hand-written model Model/TimeConv.lean, tied to the code by exhaustive (8760 h) and sampled (elapsed-time) differential runs",
        "CPython float rounding within 1e-9 relative in hours_to_month",
    ]
    ctx.assumptions += ["hours_to_month is compared up to 1e-9 relative: the model is exact in rationals, the implementation rounds"]
    ctx.lean_prepare()

    # ---------------------------------------------------------------- ghe_time_convert, exhaustive
    hours = list(range(8760))
    impl = [tuple(int(v) for v in OutputManager.ghe_time_convert(h)) for h in hours]
    out = ctx.driver([f"gtc {h}" for h in hours])
    model_ok = out is not None
    bad_pred = None
    for h in hours:
        ctx.case(("gtc", h), True, {"gtc": h, "impl": impl[h]} if h in (0, 1415, 8759) else None)
        if impl[h] != oracle_label(h) and bad_pred is None:
            bad_pred = h
        if model_ok and tuple(int(x) for x in out[h].split()) != impl[h]:
            ctx.disagreements_checked += 1
            if f"gtc-correspondence" not in ctx.broken:
                ctx.broken.append("gtc-correspondence")
                ctx.extra["gtc_first_disagreement"] = {"hour": h, "impl": impl[h], "model": out[h]}
    ctx.count("gtc_hours", len(hours))
    if bad_pred is not None:
        ctx.finding(f"gtc-label-hour", f"ghe_time_convert({bad_pred}) = {impl[bad_pred]} but the calendar says {oracle_label(bad_pred)}",
                    {"function": "OutputManager.ghe_time_convert", "hours": bad_pred, "impl": impl[bad_pred], "oracle": oracle_label(bad_pred)})
    # order preserving + injective on the implementation's own output
    if any(impl[i] >= impl[i + 1] for i in range(8759)):
        i = next(i for i in range(8759) if impl[i] >= impl[i + 1])
        ctx.finding("gtc-order", f"labels of hours {i},{i+1} not increasing: {impl[i]}, {impl[i+1]}", {"hours": [i, i + 1]})

    # ---------------------------------------------------------------- hours_to_month
    n = 6000 if ctx.tier == "quick" else 50000
    rng = ctx.rng
    xs: list = []
    cum = [0]
    for d in [31, 28, 31, 30, 31, 30, 31, 31, 30, 31, 30, 31]:
        cum.append(cum[-1] + 24 * d)
    import math
    for y in range(0, 31):
        for c in cum:
            e = float(8760 * y + c)
            xs += [e, math.nextafter(e, math.inf), math.nextafter(e, -math.inf)] if e > 0 else [e, math.nextafter(e, math.inf)]
    for _ in range(n):
        k = rng.random()
        if k < 0.5:
            xs.append(rng.randrange(0, 30 * 8760 * 4) / 4.0)
        elif k < 0.9:
            xs.append(rng.uniform(0, 30 * 8760))
        else:
            xs.append(float(rng.randrange(0, 30 * 8760)))
    xs = sorted(set(xs))
    impl_m = [float(OutputManager.hours_to_month(x)) for x in xs]
    out = ctx.driver([f"htm {core.rs(x)}" for x in xs])
    first_bad = None
    for i, x in enumerate(xs):
        ctx.case(("htm", x), True, {"htm": x, "impl": impl_m[i]} if i % (len(xs) // 3 + 1) == 0 else None)
        want = oracle_months(core.frac(x))
        tol = 1e-9 * max(1.0, float(want))
        if abs(impl_m[i] - float(want)) > tol and first_bad is None:
            first_bad = (x, impl_m[i], float(want))
        if out is not None:
            if out[i].startswith("raise") or abs(float(core.pr(out[i])) - impl_m[i]) > tol:
                ctx.disagreements_checked += 1
                if "htm-correspondence" not in ctx.broken:
                    ctx.broken.append("htm-correspondence")
                    ctx.extra["htm_first_disagreement"] = {"hours": x, "impl": impl_m[i], "model": out[i]}
    ctx.count("htm_times", len(xs))
    if first_bad:
        ctx.finding("htm-value", f"hours_to_month({first_bad[0]}) = {first_bad[1]} but the calendar gives {first_bad[2]}",
                    {"function": "OutputManager.hours_to_month", "hours": first_bad[0], "impl": first_bad[1], "oracle": first_bad[2]})
    mono_bad = next((i for i in range(len(xs) - 1) if not impl_m[i] <= impl_m[i + 1]), None)
    if mono_bad is not None:
        ctx.finding("htm-monotone", f"hours_to_month not monotone between {xs[mono_bad]} and {xs[mono_bad+1]}",
                    {"hours": [xs[mono_bad], xs[mono_bad + 1]], "impl": [impl_m[mono_bad], impl_m[mono_bad + 1]]})

    # ---------------------------------------------------------------- table builders
    # several designs in one process, on fresh and on re-used OutputManager objects: a table must
    # echo ITS design only (shared mutable state between calls would leak rows)
    om_shared = OutputManager.__new__(OutputManager)
    designs = []
    for k in range(3):
        loads = [rng.uniform(-5e4, 5e4) for _ in range(8760)]
        coords = [(rng.uniform(0, 50), rng.uniform(0, 50)) for _ in range(rng.randint(1, 40))]
        # (the load year of the hybrid load object is 2019 by default; a leap load year must not change the labels:
        # the property fixes the non-leap calendar)
        designs.append((loads, coords, types.SimpleNamespace(ghe=types.SimpleNamespace(
            hourly_extraction_ground_loads=loads, gFunction=types.SimpleNamespace(bore_locations=coords),
            hybrid_load=types.SimpleNamespace(years=[[2019], [2020], [2024, 2025]][k], start_month=1, end_month=12)))))
    order = [0, 1, 2, 0, 1]
    for call_no, k in enumerate(order):
        loads, coords, design = designs[k]
        om = om_shared if call_no % 2 else OutputManager.__new__(OutputManager)
        rows = om.get_hourly_loading_data(design)
        ctx.case(("loadings", call_no, k), True)
        ok = len(rows) == 8761 and all(list(rows[i + 1]) == [*oracle_label(i), i, loads[i]] for i in range(8760))
        if not ok:
            i = next((i for i in range(min(8760, len(rows) - 1)) if list(rows[i + 1]) != [*oracle_label(i), i, loads[i]]), None)
            ctx.finding("loadings-rows", f"Loadings table of call {call_no} (design {k}) has {len(rows) - 1} rows; row {i} does not echo the input load with its calendar label",
                        {"call_sequence": order[: call_no + 1], "row": i, "n_rows": len(rows) - 1, "impl": rows[i + 1] if i is not None else None})
        brows = OutputManager.get_borehole_location_data(design)
        ctx.case(("borefield", call_no, k), True)
        if [tuple(r) for r in brows[1:]] != [tuple(c) for c in coords]:
            ctx.finding("borefield-rows", f"BoreFieldData rows of call {call_no} differ from the selected coordinates", {"call_sequence": order[: call_no + 1], "coords": coords, "rows": brows[1:]})

    # the loads-table builder against the model's `loadingRows` (arbitrary lengths: empty, one hour, across month ends)
    lens = [0, 1, 2, 24, 25, 743, 744, 745, 1417, 800] + [rng.randrange(0, 120) for _ in range(20 if ctx.tier == "quick" else 120)]
    lists = [[float(rng.randrange(-50000, 50000)) / rng.choice([1, 4, 8]) for _ in range(n)] for n in lens]
    out = ctx.driver(["loadrows " + " ".join(core.rs(q) for q in qs) for qs in lists])
    for qs, o in zip(lists, out or []):
        dsn = types.SimpleNamespace(ghe=types.SimpleNamespace(hourly_extraction_ground_loads=list(qs), hybrid_load=types.SimpleNamespace(years=[2019])))
        rows = OutputManager.__new__(OutputManager).get_hourly_loading_data(dsn)[1:]
        ctx.case(("loadrows", len(qs), hash(tuple(qs))), True)
        model = [t.split() for t in o.split(" ; ")] if o.strip() else []
        same = len(model) == len(rows) and all([int(a) for a in mr[:4]] == [int(r[0]), int(r[1]), int(r[2]), int(r[3])] and float(core.pr(mr[4])) == float(r[4]) for mr, r in zip(model, rows))
        if not same:
            ctx.disagreements_checked += 1
            if "loads-table-correspondence" not in ctx.broken:
                ctx.broken.append("loads-table-correspondence")
                ctx.extra["loads_table_first_disagreement"] = {"n": len(qs), "impl_rows": len(rows), "model_rows": len(model), "impl_first": rows[:2], "model_first": model[:2]}
    ctx.count("loads_table_lists", len(lists))
    # g-function table on a real GHE: strictly increasing time, same rows as the curve used by simulate
    n_ghe = 2 if ctx.tier == "quick" else 6
    for j in range(n_ghe):
        phys = ghelib.default_physics() if j == 0 else ghelib.random_physics(rng)
        hgt = phys["borehole"][0]
        ghe = ghelib.build_ghe(phys, "SINGLEUTUBE", [(0.0, 0.0), (5.0, 0.0), (0.0, 5.0)], ghelib.atlanta_loads(), 12,
                               max_h=hgt + 30, min_h=max(20.0, hgt - 30), heights=[hgt])
        if j % 2 == 1:
            # a borehole whose radius differs from the radius the g-function library was computed for: the table
            # must carry the same radius correction as the curve the simulation uses
            ghe.bhe.b.r_b = float(ghe.bhe.b.r_b) * 0.93
        d2 = types.SimpleNamespace(ghe=ghe)
        grows = OutputManager.get_g_function_data(d2)
        g, gb = ghe.grab_g_function(ghe.B_spacing / float(ghe.bhe.b.H))
        xsg = [r[0] for r in grows[1:]]
        ctx.case(("gfunc", j, hgt), True, {"gfunction_rows": len(xsg), "H": hgt})
        if not all(a < b for a, b in zip(xsg, xsg[1:])):
            ctx.finding("gfunction-time-order", "Gfunction table time column not strictly increasing", {"phys": phys, "x": xsg})
        if [list(map(float, r)) for r in grows[1:]] != [[float(a), float(b), float(c)] for a, b, c in zip(g.x, g.y, gb.y)]:
            ctx.finding("gfunction-rows", "Gfunction table rows differ from the curve used in the simulation", {"phys": phys})
    # ---------------------------------------------------------------- the written files of real designs
    # (several designs per process, alternating file suffixes): each file must hold ITS table
    jobs = file_jobs(rng, ctx.tier)
    for job, recs in zip(jobs, core.pool_map(files_worker, jobs)):
        for cfg, rec in zip(job, recs):
            ctx.case(("files", rec["k"], rec["geom"], len(rec.get("coords", []))), True, {"written_files_of": rec["geom"], "boreholes": len(rec.get("coords", []))})
            ctx.count("written-file designs" + (":on-the-previous-design's-manager" if rec.get("reused_manager") else ""))
            if "error" in rec and "files" not in rec:
                ctx.broken.append(f"written-files: design {rec['k']} ({rec['geom']}) could not be produced: {rec['error']}")
                continue
            where = {"design_sequence": [c["geom"][0] for c in job[: rec["k"] + 1]], "k": rec["k"], "suffix": rec["suffix"], "geom": cfg["geom"], "scale_of_atlanta_loads": cfg["loads"][4000] / (ghelib.atlanta_loads()[4000] or 1)}
            want_files = sorted(f"{n}{rec['suffix']}.{e}" for n, e in (("BoreFieldData", "csv"), ("Gfunction", "csv"), ("Loadings", "csv"), ("SimulationSummary", "json"), ("SimulationSummary", "txt"), ("TimeDependentValues", "csv")))
            if rec["files"] != want_files:
                ctx.finding("files-written", f"write_output_files into {'an existing' if rec.get('preexisting_dir') else 'a new'} directory left {rec['files']} there, expected {want_files}", where)
            if "error" in rec:
                continue
            lo = rec["loadings"]
            ok = len(lo) == 8761 and all([int(r[0]), int(r[1]), int(r[2]), int(r[3])] == [*oracle_label(i), i] and float(r[4]) == cfg["loads"][i] for i, r in enumerate(lo[1:]))
            if not ok:
                i = next((i for i, r in enumerate(lo[1:]) if i >= 8760 or [int(r[0]), int(r[1]), int(r[2]), int(r[3])] != [*oracle_label(i), i] or float(r[4]) != cfg["loads"][i]), None)
                ctx.finding("loadings-file", f"Loadings{rec['suffix']}.csv of design {rec['k']} has {len(lo) - 1} rows; row {i} is {lo[i + 1] if i is not None and i + 1 < len(lo) else None}, the input load there is {cfg['loads'][i] if i is not None and i < 8760 else None} labelled {oracle_label(i) if i is not None and i < 8760 else None}", where)
            bf = [[float(a), float(b)] for a, b in rec["borefield"][1:]]
            if rec.get("selected") is not None and rec["selected"] != rec["coords"]:
                ctx.finding("returned-field-not-the-selected-one", f"design {rec['k']} ({rec['geom']}): the search selected {len(rec['selected'])} coordinates, the exchanger it returns (and the bore-field table) has {len(rec['coords'])}", where)
            if bf != rec["coords"] or rec["borefield"][0] != ["x", "y"]:
                ctx.finding("borefield-file", f"BoreFieldData{rec['suffix']}.csv of design {rec['k']} lists {len(bf)} rows that are not the {len(rec['coords'])} selected coordinates in order", {**where, "file_rows": bf[:5], "selected": rec["coords"][:5]})
            gf = [[float(v) for v in r] for r in rec["gfunction"][1:]]
            if not all(a[0] < b[0] for a, b in zip(gf, gf[1:])):
                ctx.finding("gfunction-file-order", f"Gfunction{rec['suffix']}.csv of design {rec['k']}: time column not strictly increasing", where)
            if gf != rec["curve"]:
                ctx.finding("gfunction-file-rows", f"Gfunction{rec['suffix']}.csv of design {rec['k']} differs from the curve used in the simulation at the returned height {rec['H']}", where)
            for key, pick in (("max_hp_eft", max), ("min_hp_eft", min)):
                v = pick(rec["hp_eft"])
                t = rec["times"][rec["hp_eft"].index(v)]
                want = float(oracle_months(core.frac(t)))
                got_v, got_t = rec["summary"][key]["value"], rec["summary"][key + "_time"]["value"]
                if got_v != v or abs(got_t - want) > 1e-9 * max(1.0, want):
                    ctx.finding("summary-extreme-time", f"summary {key} = {got_v} at {got_t} months; the simulated series has {v} at hour {t} = {want} months", where)
    ctx.programs = 6
    ctx.exhaustive = False
    ctx.extra["exhaustive_part"] = "ghe_time_convert over all 8760 hours"
    if ctx.tier == "thorough":
        ctx.leanchecker(["GHEVerif.Props.C19", "GHEVerif.Lemmas.TimeConv", "GHEVerif.Model.TimeConv"])
