"""C12 — Reported results are self-consistent and describe the returned design.

Proof (lean/GHEVerif/Props/C12.lean): reported_temps_at_reported_height (after GHE.size the stored
temperatures were computed at the height the object now has — for every excess function, bracket and
Brent behaviour: bracketed, clamped low, clamped high), summary_consistent, log_row_excess,
excess_nonpos_iff; the statement lists of GHE.size / local_objective, the summary's attribute
expressions and the search-log rows are REGENERATED from the source on every run.
Tie to the code: the interpreted GHE.size model is run against the real GHE.size on recorded runs
(height and 'simulated at' after sizing), and every summary is compared with a fresh re-simulation.
"""
from __future__ import annotations

import core
import designlib
import searchlib

PROPERTY = "C12"
LEVEL = "proof"
MANIFEST = {
    "text": "Lean theorems about the height/temperature state machine interpreted from the regenerated statement list of GHE.size: in all solve_root outcomes the reported temperatures belong to the reported height; summary count/drilling/length identities; excess identity of every log row (cost regenerated from the source). Real summaries are compared with fresh re-simulations and with the recorded runs.",
    "note": "the state machine abstracts simulate() to 'records the current height'; that simulate() is a function of the height and the object is C13; fresh re-simulation uses the implementation's own simulation code",
    "technique": "Lean 4 proof about a model regenerated from source (statement lists) + differential check on real summaries",
    "design_ref": "DESIGN.md §3 C12",
}


def run(ctx: core.Ctx):
    ctx.rule = ("recorded real design runs (shared with C01/C02) in all four outcomes (bracketed, clamped-min, clamped-max, unmet-continued), all "
                "design methods and pipe types; distinct = distinct configuration with a summary; non-trivial = summary produced")
    ctx.trusted_base += [
        "translator plug-in gen_report.py (statement lists of GHE.size/local_objective, summary expressions, log rows, cost)",
        "Model/Report.lean interprets the regenerated statement list; simulate() abstracted to 'records the height'",
    ]
    ctx.lean_prepare()
    # the real GHE.size on a bare object with a synthetic simulate(): both time-step methods, all three
    # solve_root outcomes -- after sizing the stored temperatures must be those of the final height
    # and of the REQUESTED method (the manager only ever sizes with HYBRID)
    scases = searchlib.size_cases(ctx.rng, 300 if ctx.tier == "quick" else 3000)
    for c in scases:
        res = searchlib.real_size(c)
        ctx.case(("size", repr(c)), True)
        ctx.count("size-plumbing:" + c[0])
        searchlib.check_size_predicate(ctx, c, res)
    cfgs, recs, cached = designlib.get_runs(ctx)
    lines, owners = [], []
    for i, (cfg, r) in enumerate(zip(cfgs, recs)):
        if r["outcome"] == "harness-error":
            ctx.infra(f"run {r['id']}: {r.get('message')}")
            continue
        if r["outcome"] != "design":
            ctx.count("no-design:" + r["outcome"].split()[0])
            continue
        g = cfg["geom"][0]
        rep = {"cfg": r["cfg"], "profile": cfg["profile"], "scale": cfg["scale"], "nbh": r["nbh"], "H": r["H"], "summary": {k: v for k, v in (r.get("summary") or {}).items() if k != "log"}}
        root = r["roots"][-1] if r.get("roots") else None
        kind = "none"
        if root:
            kind = "bracketed" if root["f_lower"] * root["f_upper"] < 0 else ("clampedLow" if root["f_lower"] < 0 else "clampedHigh")
            # model of GHE.size on the recorded bracket: final height must be the recorded result, simulated at it
            its = " ".join(core.rs(h) for h, _ in root["iters"])
            lines.append(f"size {core.rs(root['f_lower'])} {core.rs(root['f_upper'])} {core.rs(root['lower'])} {core.rs(root['upper'])} {core.rs(root['result'])} {core.rs(cfg.get('nominal_height', 96.0))} {its}".strip())
            owners.append(i)
        for chk in r.get("eval_checks", []):
            if abs(chk["logged"] - chk["fresh"]) > 1e-6 * max(1.0, abs(chk["fresh"])):
                ctx.finding("search-log-row-not-the-field-at-that-height", f"{g}: search-log excess {chk['logged']:.6f} for field {chk['idx']} at H={chk['h']} vs {chk['fresh']:.6f} from a fresh evaluation", {**rep, "evaluation": chk})
        esc = designlib.is_escape(r)
        ctx.count(f"outcome:{kind}{':escape' if esc else ''}")
        ctx.count(f"method:{g}")
        # live object state vs fresh re-simulation at the reported height (tool pipeline)
        if abs(r["live_max"] - r["oracle_a"][0]) > 1e-3 or abs(r["live_min"] - r["oracle_a"][1]) > 1e-3:
            ctx.finding("live-temps-not-at-returned-height", f"{g} ({kind}): object holds EFT {r['live_max']:.4f}/{r['live_min']:.4f}, a fresh simulation at the returned height gives {r['oracle_a'][0]:.4f}/{r['oracle_a'][1]:.4f}", rep)
        s = r.get("summary")
        if s is None:
            ctx.count("summary-unavailable:" + str(r.get("summary_error", ""))[:40])
            ctx.case(("nosummary", r["id"]), False)
            continue
        ctx.case((g, cfg["pipe"], r["loads_sha"], kind, esc), True, {"id": r["id"], "geom": g, "kind": kind, "nbh": r["nbh"], "H": r["H"], "summary": rep["summary"]} if len(ctx.samples) < 3 else None)
        if s["number_of_boreholes"] != s["bore_rows"] or s["number_of_boreholes"] != r["nbh"] or not s["bore_rows_match"]:
            ctx.finding("count-vs-rows", f"{g}: summary says {s['number_of_boreholes']} boreholes, bore-field table has {s['bore_rows']} rows, design has {r['nbh']}", rep)
        if abs(s["total_drilling"] - s["number_of_boreholes"] * s["active_borehole_length"]) > 1e-9 * max(1.0, s["total_drilling"]):
            ctx.finding("drilling-identity", f"{g}: total drilling {s['total_drilling']} != {s['number_of_boreholes']} x {s['active_borehole_length']}", rep)
        if s["active_borehole_length"] != r["H"]:
            ctx.finding("length-vs-height", f"{g}: reported length {s['active_borehole_length']} != returned height {r['H']}", rep)
        if abs(s["max_hp_eft"] - r["oracle_a"][0]) > 1e-3 or abs(s["min_hp_eft"] - r["oracle_a"][1]) > 1e-3:
            ctx.finding("summary-temps-not-at-reported-height", f"{g} ({kind}): summary EFT {s['max_hp_eft']:.4f}/{s['min_hp_eft']:.4f} vs re-simulation at the reported height {r['oracle_a'][0]:.4f}/{r['oracle_a'][1]:.4f}", rep)
        # the summary describes the design under the parameters it was made with (also when the user has
        # already set the simulation parameters of the NEXT scenario on the manager)
        sp = s.get("sim_params") or {}
        if sp:
            ctx.count("summary-sim-params-checked" + (":after-late-reconfiguration" if r.get("late_reconfig") else ""))
            want = {"end_month": cfg["months"], "maximum_allowable_hp_eft": cfg["max_eft"], "minimum_allowable_hp_eft": cfg["min_eft"],
                    "maximum_allowable_height": cfg["max_h"], "minimum_allowable_height": cfg["min_h"]}
            diff = {k: (sp.get(k), v) for k, v in want.items() if sp.get(k) != v}
            if diff:
                ctx.finding("summary-parameters-not-the-designs", f"{g}: the summary reports {{{', '.join(f'{k}: {a}' for k, (a, b) in diff.items())}}} but the design was made under {{{', '.join(f'{k}: {b}' for k, (a, b) in diff.items())}}}"
                            + (" (set_simulation_parameters for the next scenario was called before prepare_results)" if r.get("late_reconfig") else ""), rep)
            if not (sp.get("minimum_allowable_height", -1e9) - 1e-9 <= s["active_borehole_length"] <= sp.get("maximum_allowable_height", 1e9) + 1e-9):
                ctx.finding("reported-height-outside-reported-window", f"{g}: reported length {s['active_borehole_length']} outside the reported window [{sp.get('minimum_allowable_height')}, {sp.get('maximum_allowable_height')}]", rep)
        bad_rows = [row for row in s["log"] if abs(row[1] - max(row[2] - cfg["max_eft"], cfg["min_eft"] - row[3])) > 1e-12 * max(1.0, abs(row[1]))]
        ctx.count("log-rows", len(s["log"]))
        if bad_rows:
            ctx.finding("log-row-excess", f"{g}: search-log row {bad_rows[0]} does not satisfy excess = max(maxEFT - hi, lo - minEFT)", rep)
    out = ctx.driver(lines) if lines else []
    for i, o in zip(owners, out or []):
        r = recs[i]
        ctx.programs += 1
        toks = o.split()
        ok = len(toks) == 2 and toks[0] == toks[1] and abs(float(core.pr(toks[0])) - r["H"]) <= 1e-12 * max(1.0, r["H"])
        if not ok:
            ctx.disagreements_checked += 1
            if "size-state-machine-correspondence" not in ctx.broken:
                ctx.broken.append("size-state-machine-correspondence")
                ctx.extra["first_size_disagreement"] = {"id": r["id"], "model": o, "real_H": r["H"], "root": {k: v for k, v in r["roots"][-1].items() if k != "iters"}}
    if ctx.tier == "thorough":
        ctx.leanchecker(["GHEVerif.Props.C12", "GHEVerif.Model.Report", "GHEVerif.Lemmas.Pipeline"])
