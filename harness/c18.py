"""C18 — Command-line exit status and validation verdict reflect the outcome.

Proof: lean/GHEVerif/Props/C18.lean — over every invocation the click parser can hand to the
callback, every input file content and every outcome of the design run: exit 0 iff
(--validate-only and valid) or (--convert IDF succeeded) or (worker returned 0, which it does only
after write_output_files ran) (`exit_zero_iff_success`, `run_exit_zero_means_outputs`); invalid
input, unsupported options, a missing output directory exit non-zero (`invalid_nonzero`,
`unsupported_option_nonzero`); the verdict is 0 iff every section's validator returns 0
(`verdict_iff_all_sections`, `validators_cover_all_sections`) whatever the letter case of the
five names (`verdict_case_insensitive`).  All about tables regenerated from manager.py /
validate.py / the schemas on every run.

Here: every single-field corruption of four valid files through the real validate_input_file
(verdict vs the model and vs jsonschema called directly), a sample of them through the real click
command (CliRunner; design run stubbed) with and without --validate-only / output directory, the
option matrix, raising design steps, and real `python -c ... run_manager_from_cli()` processes
including one full design run and its --convert IDF.
"""
from __future__ import annotations

import json
import os
import shutil
import subprocess
import sys
import tempfile
from pathlib import Path

import configlib as cl
import core

PROPERTY = "C18"
LEVEL = "proof"
MANIFEST = {
    "technique": "Lean 4 proof about the callback's path table, the validator table and the schemas (all regenerated) + differential runs of the real command",
    "design_ref": "DESIGN.md ### C18",
}

RUN_STEPS = ["find_design", "prepare_results", "write_output_files"]


def _write(path: Path, doc, raw=None):
    path.write_text(raw if raw is not None else json.dumps(doc))


def _cli(args, raising=None):
    """The real click command in-process (standalone mode), design run stubbed; `raising` = a run step that raises.
    Returns (exit_code, output text, run steps reached, exception name or None)."""
    from click.testing import CliRunner

    from ghedesigner.manager import GHEManager, run_manager_from_cli

    steps = []
    saved = (GHEManager.find_design, GHEManager.prepare_results, GHEManager.write_output_files)

    def mk(name):
        def f(self, *a, **k):
            if raising == name:
                raise RuntimeError(f"stub: {name} fails")
            steps.append(name)
            return 0
        return f

    import io
    import logging

    from ghedesigner import manager as mgr_mod

    GHEManager.find_design, GHEManager.prepare_results, GHEManager.write_output_files = mk("find_design"), mk("prepare_results"), mk("write_output_files")
    buf = io.StringIO()
    saved_err = mgr_mod.stderr
    mgr_mod.stderr = buf                      # manager.py prints to the `stderr` it imported from sys
    handler = logging.StreamHandler(buf)
    mgr_mod.logger.addHandler(handler)
    mgr_mod.logger.propagate = False
    try:
        r = CliRunner().invoke(run_manager_from_cli, args)
    finally:
        GHEManager.find_design, GHEManager.prepare_results, GHEManager.write_output_files = saved
        mgr_mod.stderr = saved_err
        mgr_mod.logger.removeHandler(handler)
        mgr_mod.logger.propagate = True
    exc = type(r.exception).__name__ if r.exception is not None and not isinstance(r.exception, SystemExit) else None
    return r.exit_code, r.output + buf.getvalue(), steps, exc


def _mutant_worker(job):
    import warnings

    warnings.filterwarnings("ignore")
    idx, label, doc, raw, workdir, cli_modes = job
    wd = Path(workdir)
    p = wd / f"m{idx}.json"
    _write(p, doc, raw)
    res = {"idx": idx}
    rv = cl.real_validate(p)
    res["validate"] = list(rv)
    res["oracle"] = cl.oracle_sections(doc) if raw is None else None
    res["cli"] = []
    for mode in cli_modes:
        if mode == "validate-only":
            args = ["--validate-only", str(p)]
        elif mode == "run":
            args = [str(p), str(wd / f"out{idx}")]
        else:
            continue
        code, output, steps, exc = _cli(args)
        res["cli"].append({"mode": mode, "exit": code, "steps": steps, "exc": exc, "out": output[-300:]})
    p.unlink(missing_ok=True)
    return res


def _model_file(doc, raw):
    if raw is not None:
        return ["-"]
    return cl.enc(cl.compress_loads(doc))


def _broken(ctx, name, info):
    ctx.disagreements_checked += 1
    if name not in ctx.broken:
        ctx.broken.append(name)
        ctx.extra[name + "_first"] = info
        ctx.log("correspondence differs:", name, json.dumps(info, default=str)[:500])


def _model_cli(vo, cv, od, idf_raises, raising, file_toks):
    return " ".join(["cli", "call", "t" if vo else "f"] + (["z"] if cv is None else ["s", cl.esc(cv)])
                    + ["t" if od else "f", "t" if idf_raises else "f", ",".join(raising) if raising else "-"] + file_toks)


def run(ctx: core.Ctx):
    import warnings

    warnings.filterwarnings("ignore")
    ctx.rule = ("validation: every single-field corruption (missing key/section, wrong JSON type, below/at/above minimum and maximum, unknown / "
                "empty / case-changed / padded enum, other method or arrangement, wrong nesting or coordinates, load-list lengths and element "
                "types, extra keys) of every field of every section of four valid files, plus non-JSON text; command line: a sample of these "
                "with --validate-only and with an output directory, the option matrix (--convert IDF/XYZ/'', no output directory, non-existent "
                "input, unknown option, --version, --help), each design-run step raising, ten real design runs on valid inputs (feasible; search failing for loads too large / too small / zero with and "
                "without continue_if_design_unmet; design step raising) with the predicate exit 0 <=> the six output files exist, and real processes "
                "(incl. an infeasible design with and without the continue flag); distinct = distinct "
                "(file content, arguments); non-trivial = all")
    ctx.trusted_base += [
        "translator translate/gen_config.py (callback path table, click parameters, validator table, schemas, worker operations)",
        "click's standalone dispatch (usage error 2, eager --help/--version 0, exit(n) -> n, uncaught exception -> 1): modelled as Cli.Parse, measured on CliRunner and real processes",
        "jsonschema's Draft4Validator (as in C17); hand-written interpretation of the guard strings (Cli.evalGuard), tied by the differential runs",
    ]
    ctx.assumptions += [
        "names are ASCII; NaN/Infinity excluded",
        "--convert takes no input file validation (it reads a results summary): exempt from 'invalid input exits non-zero'",
        "'output files were written' is observed as write_output_files having run (stubbed runs) and as the result files existing (real runs)",
    ]
    import ghedesigner

    ctx.extra["implementation"] = str(Path(ghedesigner.__file__).parent)
    if not ctx.lean_prepare():
        # a generator that left its supported subset (or a proof that no longer builds) is recorded in ctx.broken; the
        # compiled driver of the last good build still answers, so every stream below runs and looks for a failing input
        ctx.log("Lean side not up to date:", "; ".join(ctx.broken[:3]), "- continuing with the differential and predicate streams")
    tmp = Path(tempfile.mkdtemp(prefix="c18_", dir=os.environ.get("TMPDIR", "/tmp")))
    try:
        import time
        for name, fn in (("validation", _validation), ("options", _options), ("design_outcomes", _design_outcomes), ("placement", _placement), ("processes", _processes)):
            t = time.time()
            fn(ctx, tmp)
            ctx.extra[name + "_s"] = round(time.time() - t, 1)
    finally:
        shutil.rmtree(tmp, ignore_errors=True)
    ctx.programs = 3
    if ctx.tier == "thorough":
        ctx.leanchecker(["GHEVerif.Props.C18", "GHEVerif.Model.Cli"])


# --------------------------------------------------------------------------------------------- validation verdicts
def _validation(ctx, tmp):
    rng = ctx.rng
    bases = cl.base_documents()
    jobs, meta = [], []
    stride = 8 if ctx.tier == "quick" else 2
    for bi, (bname, doc) in enumerate(bases):
        ms = cl.mutants(doc, rng)
        if ctx.tier == "quick" and bi >= 2:
            # quick tier: the third and fourth file contribute what the first two lack (coaxial pipe, nested polygons)
            keep = ("pipe.", "geometric_constraints.") if bi == 2 else ("geometric_constraints.property_boundary", "geometric_constraints.no_go_boundaries", "geometric_constraints.method")
            ms = [m for m in ms if any(k in m[0] for k in keep)]
        off = rng.randrange(stride)
        for k, (label, d) in enumerate(ms):
            modes = ["validate-only", "run"] if (k + off) % stride == 0 or label.startswith(("valid", "lower-case", "mixed-case", "extra-key", "del-section")) else []
            meta.append((bname, label, d, None))
            jobs.append((len(jobs), label, d, None, str(tmp), modes))
    for k, raw in enumerate(["", "not json", "{", "[1, 2", '{"version": "1.5",}', "null", "3", '"text"', "[]", "{}"]):
        meta.append(("raw", f"raw-{k}", None, raw))
        doc = None
        try:
            doc = json.loads(raw)
        except ValueError:
            pass
        jobs.append((len(jobs), f"raw-{k}", doc, raw if doc is None else None, str(tmp), ["validate-only", "run"]))
        meta[-1] = ("raw", f"raw-{k}", doc, raw if doc is None else None)
    results = core.pool_map(_mutant_worker, jobs, workers=16, chunksize=4)

    lines, slots = [], []
    for (bname, label, doc, raw), job, res in zip(meta, jobs, results):
        ft = _model_file(doc, raw)
        slot = {"validate": None, "cli": {}}
        if raw is None:
            slot["validate"] = len(lines)
            lines.append("cfg.validate " + " ".join(ft))
        for c in res["cli"]:
            slot["cli"][c["mode"]] = len(lines)
            # an exception while the worker builds the design object (domain generation inside set_design) is an outcome of
            # the design run as far as the exit status is concerned: handed to the model as a raising first step
            early = c["mode"] == "run" and c["exc"] is not None and not c["steps"] and tuple(res["validate"][:2]) == ("ok", 0)
            if early:
                ctx.count(f"run-raised-before-find_design:{c['exc']}")
            lines.append(_model_cli(c["mode"] == "validate-only", None, c["mode"] == "run", False, ["find_design"] if early else [], ft))
        slots.append(slot)
    out = ctx.driver(lines) if lines else []
    model_ok = out is not None

    for (bname, label, doc, raw), res, slot in zip(meta, results, slots):
        rv = tuple(res["validate"][:2])
        kind = label.split(":")[0]
        ctx.count("mutation:" + kind)
        ctx.count("verdict:" + ("valid" if rv == ("ok", 0) else ("errors" if rv[0] == "ok" else "raises-" + rv[1])))
        replay = {"base": bname, "mutation": label, "raw": raw, "doc_without_loads": None if doc is None or not isinstance(doc, dict) else {k: v for k, v in doc.items() if k != "loads"}}
        ctx.case((bname, label), True, {"base": bname, "mutation": label, "verdict": rv} if len(ctx.samples) < 4 and kind.startswith("below") else None)
        # -------- property: accepted exactly when every section satisfies its schema (independent jsonschema run)
        if raw is None:
            want = all(v is True for v in res["oracle"].values())
            got = rv == ("ok", 0)
            if got != want:
                bad = [s for s, v in res["oracle"].items() if v is not True]
                ctx.finding(f"verdict:{kind}:{label.split(':')[-1]}:{'accepts' if got else 'rejects'}",
                            f"validate_input_file {'accepts' if got else 'rejects'} ({rv}) {bname} with {label}, but jsonschema says sections failing = {bad}", replay)
            if model_ok:
                toks = out[slot["validate"]].split()
                mv = ("ok", int(toks[1])) if toks[0] == "ok" else (toks[0], toks[1] if len(toks) > 1 else "")
                if mv != rv:
                    _broken(ctx, "verdict-correspondence", {"replay": replay, "impl": rv, "model": out[slot["validate"]][:80]})
        elif rv[0] != "raise":
            ctx.finding(f"verdict:not-json:{label}", f"validate_input_file returned {rv} on text that is not JSON", replay)
        # -------- property + correspondence on the command line
        for c in res["cli"]:
            ctx.case((bname, label, c["mode"]), True)
            ctx.count(f"cli:{c['mode']}:exit{c['exit']}")
            valid = rv == ("ok", 0)
            wrote = c["steps"] == RUN_STEPS
            if c["mode"] == "validate-only":
                okp = (c["exit"] == 0) == valid and not c["steps"]
            else:
                okp = (c["exit"] == 0) == wrote and (valid or c["exit"] != 0)
            if not okp:
                ctx.finding(f"exit:{c['mode']}:{kind}:{label.split(':')[-1]}:exit{c['exit']}",
                            f"`{c['mode']}` on {bname} with {label}: exit {c['exit']}, verdict {rv}, run steps {c['steps']}, exception {c['exc']}", replay)
            if model_ok:
                toks = out[slot["cli"][c["mode"]]].split()
                if toks[0] != "exit" or int(toks[1]) != c["exit"] or (toks[2] == "t") != wrote:
                    _broken(ctx, "exit-correspondence", {"replay": replay, "mode": c["mode"], "impl_exit": c["exit"], "impl_steps": c["steps"],
                                                         "impl_exc": c["exc"], "model": " ".join(toks[:3])})


# --------------------------------------------------------------------------------------------- option matrix
def _options(ctx, tmp):
    name, doc = cl.base_documents()[0]
    good = tmp / "good.json"
    _write(good, doc)
    bad_doc = dict(doc)
    bad_doc["grout"] = {"conductivity": -1.0, "rho_cp": 1.0}
    bad = tmp / "bad.json"
    _write(bad, bad_doc)
    outdir = tmp / "opt_out"
    ft_good, ft_bad = cl.enc(cl.compress_loads(doc)), cl.enc(cl.compress_loads(bad_doc))
    # (label, args, model line or expected (exit) for parser-level cases, raising step)
    inv = []
    for fname, path, ft, valid in (("good", good, ft_good, True), ("bad", bad, ft_bad, False)):
        inv += [
            (f"{fname}:validate-only", ["--validate-only", str(path)], (True, None, False), None),
            (f"{fname}:validate-only+outdir", ["--validate-only", str(path), str(outdir)], (True, None, True), None),
            (f"{fname}:run", [str(path), str(outdir)], (False, None, True), None),
            (f"{fname}:no-outdir", [str(path)], (False, None, False), None),
            (f"{fname}:convert-XYZ", ["--convert", "XYZ", str(path), str(outdir)], (False, "XYZ", True), None),
            (f"{fname}:convert-idf-lowercase", ["-c", "idf", str(path)], (False, "idf", False), None),
            (f"{fname}:convert-IDF-no-results", ["--convert", "IDF", str(path)], (False, "IDF", False), None),
            (f"{fname}:convert-empty", ["--convert", "", str(path), str(outdir)], (False, "", True), None),
            (f"{fname}:validate-only+convert", ["--validate-only", "--convert", "XYZ", str(path)], (True, "XYZ", False), None),
        ]
        for step in RUN_STEPS:
            inv.append((f"{fname}:run-raises-{step}", [str(path), str(outdir)], (False, None, True), step))
    parser_level = [
        ("missing-input", [], "usage"), ("nonexistent-input", [str(tmp / "nope.json"), str(outdir)], "usage"),
        ("nonexistent-input-validate-only", ["--validate-only", str(tmp / "nope.json")], "usage"),
        ("unknown-option", ["--frobnicate", str(good)], "usage"), ("three-arguments", [str(good), str(outdir), "extra"], "usage"),
        ("convert-without-value", [str(good), "--convert"], "usage"),
        ("version", ["--version"], "eager"), ("help", ["--help"], "eager"), ("version-with-bad-file", ["--version", str(bad)], "eager"),
    ]
    lines = []
    for label, args, (vo, cv, od), step in inv:
        ft = ft_good if label.startswith("good") else ft_bad
        lines.append(_model_cli(vo, cv, od, True, [step] if step else [], ft))
    for label, args, kind in parser_level:
        lines.append("cli usage" if kind == "usage" else "cli eager x")
    out = ctx.driver(lines)
    k = 0
    for label, args, (vo, cv, od), step in inv:
        code, output, steps, exc = _cli(args, raising=step)
        valid = label.startswith("good")
        wrote = steps == RUN_STEPS
        ctx.case(("option", label), True, {"args": label, "exit": code} if "convert-XYZ" in label else None)
        ctx.count(f"option-exit{code}")
        replay = {"args": [a.replace(str(tmp), "<tmp>") for a in args], "file": "valid near-square demo" if valid else "grout conductivity -1", "raising": step}
        if vo:
            want0 = valid
        elif cv:
            want0 = False  # XYZ / idf unsupported; IDF with no results next to the file cannot convert
        else:
            want0 = wrote
        if (code == 0) != want0 or (code == 0 and not vo and not cv and not wrote) or (not valid and not cv and code == 0):
            ctx.finding(f"exit:option:{label}:exit{code}", f"`ghedesigner {' '.join(replay['args'])}` ({replay['file']}): exit {code}, run steps {steps}, exception {exc}", replay)
        if out is not None:
            toks = out[k].split()
            if int(toks[1]) != code or (toks[2] == "t") != wrote:
                _broken(ctx, "option-correspondence", {"replay": replay, "impl_exit": code, "impl_steps": steps, "impl_exc": exc, "model": " ".join(toks[:3])})
            else:
                for eff in toks[3:]:
                    e = cl.unesc(eff)
                    if e.startswith(("stderr:", "stdout:")) and e.split(":", 1)[1].strip() and e.split(":", 1)[1].strip() not in output:
                        _broken(ctx, "message-correspondence", {"replay": replay, "model_effect": e, "impl_output": output[-300:]})
        k += 1
    for label, args, kind in parser_level:
        code, output, steps, exc = _cli(args)
        ctx.case(("parser", label), True)
        ctx.count(f"parser-exit{code}")
        replay = {"args": [a.replace(str(tmp), "<tmp>") for a in args]}
        want = 2 if kind == "usage" else 0
        if kind == "usage" and code == 0:
            ctx.finding(f"exit:parser:{label}:exit0", f"`ghedesigner {' '.join(replay['args'])}` exits 0", replay)
        if out is not None and (int(out[k].split()[1]) != code or code != want or steps):
            _broken(ctx, "parser-correspondence", {"replay": replay, "impl_exit": code, "model": out[k], "steps": steps})
        k += 1


OUTPUT_FILES = ["BoreFieldData.csv", "Gfunction.csv", "Loadings.csv", "SimulationSummary.json", "SimulationSummary.txt", "TimeDependentValues.csv"]


def outcome_documents():
    """Schema-valid inputs whose design run ends in every way it can: a design is found; the search fails because the
    loads are far too large / far too small / zero for the land (with, without and with a false continue flag); the
    design step raises something else (a RowWise lot narrower than the spacing; a near-square spacing of 0)."""
    import ghelib

    _, doc = cl.base_documents()[0]
    atl = ghelib.atlanta_loads()

    def near(scale, length=20.0, cont=None, b=5.0):
        d = json.loads(json.dumps(doc))
        d["simulation"] = {"num_months": 12}
        d["geometric_constraints"].update(length=length, b=b)
        d["design"].pop("max_boreholes", None)
        d["design"].pop("continue_if_design_unmet", None)
        if cont is not None:
            d["design"]["continue_if_design_unmet"] = cont
        d["loads"]["ground_loads"] = [x * scale for x in atl]
        return d

    rw = json.loads(json.dumps(cl.base_documents()[1][1]))
    rw["simulation"] = {"num_months": 12}
    rw["geometric_constraints"]["property_boundary"] = [[0, 0], [2.0, 0], [2.0, 1.0], [0, 1.0]]
    rw["geometric_constraints"]["no_go_boundaries"] = []
    rw["loads"]["ground_loads"] = [x * 0.25 for x in atl]
    return [
        ("feasible", near(0.25, 60.0)),
        ("infeasible-loads-50x", near(50.0)),
        ("infeasible-loads-50x-continue-false", near(50.0, cont=False)),
        ("infeasible-loads-50x-continue-true", near(50.0, cont=True)),
        ("infeasible-loads-400x-larger-lot", near(400.0, 40.0)),
        ("infeasible-loads-tiny", near(1e-7)),
        ("infeasible-loads-tiny-continue-true", near(1e-7, cont=True)),
        ("infeasible-loads-zero", near(0.0)),
        ("design-step-raises-rowwise-narrow-lot", rw),
        ("design-step-raises-zero-spacing", near(0.25, 60.0, b=0.0)),
    ]


def _outcome_worker(job):
    """One real design run through the click command, in-process, nothing stubbed."""
    import io
    import warnings

    warnings.filterwarnings("ignore")
    label, doc, workdir = job
    from click.testing import CliRunner

    from ghedesigner import manager as mgr_mod

    wd = Path(workdir)
    p = wd / f"oc_{label}.json"
    out = wd / f"oc_out_{label}"
    _write(p, doc)
    buf = io.StringIO()
    saved = mgr_mod.stderr
    mgr_mod.stderr = buf
    try:
        with cl.silent():
            r = CliRunner().invoke(mgr_mod.run_manager_from_cli, [str(p), str(out)])
    finally:
        mgr_mod.stderr = saved
    exc = f"{type(r.exception).__name__}: {r.exception}"[:160] if r.exception is not None and not isinstance(r.exception, SystemExit) else None
    present = sorted(f.name for f in out.glob("*")) if out.exists() else []
    rv = cl.real_validate(p)
    return {"label": label, "exit": r.exit_code, "exc": exc, "files": present, "validate": list(rv[:2]), "stderr": buf.getvalue()[-200:]}


def _design_outcomes(ctx, tmp):
    """The property's last clause on real design runs: exit status 0 <=> the output files were written."""
    docs = outcome_documents()
    res = core.pool_map(_outcome_worker, [(label, d, str(tmp)) for label, d in docs], workers=len(docs))
    lines = []
    for (label, d), r in zip(docs, res):
        wrote = all(f in r["files"] for f in OUTPUT_FILES)
        # whether the design run produced a design is an outcome of the numerical search, handed to the model as a fact
        lines.append(_model_cli(False, None, True, True, [] if wrote else ["find_design"], cl.enc(d)))
    out = ctx.driver(lines)
    for i, ((label, d), r) in enumerate(zip(docs, res)):
        wrote = all(f in r["files"] for f in OUTPUT_FILES)
        ctx.case(("design-outcome", label), True, {"design_outcome": label, "exit": r["exit"], "files": len(r["files"]), "exception": r["exc"]} if i in (1, 3) else None)
        ctx.count(f"design-outcome:exit{r['exit']}:{'outputs' if wrote else 'no-outputs'}")
        replay = {"run": "ghedesigner <input> <output dir> (real design run, in-process through click)", "label": label, "exit": r["exit"], "files": r["files"],
                  "exception": r["exc"], "stderr": r["stderr"], "input_without_loads": {k: v for k, v in d.items() if k != "loads"},
                  "loads": "Atlanta office hourly loads x scale, see harness/c18.py outcome_documents"}
        if tuple(r["validate"]) != ("ok", 0):
            ctx.infra(f"design-outcome input {label} is not schema-valid: {r['validate']}")
            continue
        if (r["exit"] == 0) != wrote:
            ctx.finding(f"exit:design-outcome:{label}:exit{r['exit']}:{'outputs' if wrote else 'no-outputs'}",
                        f"valid input `{label}` run with an output directory: exit status {r['exit']} but output files written = {r['files'] or 'none'} "
                        f"(exception {r['exc']}; stderr {r['stderr'].strip()[-100:]!r}); the status must be 0 exactly when the six output files exist", replay)
        if label.endswith("continue-true") and not wrote:
            ctx.finding(f"exit:design-outcome:{label}:no-outputs", f"`{label}`: continue_if_design_unmet=true but no output was written (exit {r['exit']}, {r['exc']})", replay)
        if out is not None:
            toks = out[i].split()
            if toks[0] != "exit" or int(toks[1]) != r["exit"] or (toks[2] == "t") != wrote:
                _broken(ctx, "design-outcome-correspondence", {"label": label, "impl_exit": r["exit"], "impl_files": r["files"], "impl_exc": r["exc"], "model": " ".join(toks[:3])})


def _run_cli_real(args):
    """The click command in-process, nothing stubbed; (exit code, exception text or None, captured stderr of manager.py)."""
    import io

    from click.testing import CliRunner

    from ghedesigner import manager as mgr_mod

    buf = io.StringIO()
    saved = mgr_mod.stderr
    mgr_mod.stderr = buf
    try:
        with cl.silent() as (so, se):
            r = CliRunner().invoke(mgr_mod.run_manager_from_cli, args)
    finally:
        mgr_mod.stderr = saved
    exc = f"{type(r.exception).__name__}: {r.exception}"[:160] if r.exception is not None and not isinstance(r.exception, SystemExit) else None
    return r.exit_code, exc, (buf.getvalue() + se.getvalue() + (r.output or ""))[-300:]


def _listing(d: Path):
    """Relative paths of everything below `d` (files and directories), sorted."""
    if not d.exists():
        return None
    return sorted(str(q.relative_to(d)) + ("/" if q.is_dir() else "") for q in d.rglob("*"))


def _summary_facts(d: Path):
    try:
        s = json.loads((d / "SimulationSummary.json").read_text())["ghe_system"]
        return {"number_of_boreholes": s["number_of_boreholes"], "active_borehole_length": s["active_borehole_length"]["value"],
                "pipe_geometry_keys": sorted(s["pipe_geometry"])}
    except Exception as e:  # noqa: BLE001
        return {"unreadable": f"{type(e).__name__}: {e}"[:100]}


def _placement_worker(job):
    """A sequence of real runs / conversions in one process: [(label, kind, input doc or None, directory, prepare)]."""
    import time
    import warnings

    warnings.filterwarnings("ignore")
    steps, workdir = job
    wd = Path(workdir)
    wd.mkdir(parents=True, exist_ok=True)
    out = []
    targets = set()
    for label, kind, doc, rel, prepare in steps:
        target = wd / rel
        targets.add(target)
        if prepare == "mkdir":
            target.mkdir(parents=True, exist_ok=True)
        t0 = time.time()
        if kind == "run":
            p = wd / f"pl_{label}.json"
            _write(p, doc)
            code, exc, err = _run_cli_real([str(p), str(target)])
            files = _listing(target)
            fresh = None if files is None else all((target / f).exists() and (target / f).stat().st_mtime >= t0 - 1.0 for f in OUTPUT_FILES)
            out.append({"label": label, "kind": kind, "exit": code, "exc": exc, "stderr": err, "listing": files, "all_fresh": fresh,
                        "facts": _summary_facts(target), "elsewhere": [str(q.relative_to(wd)) for q in wd.rglob("SimulationSummary.json") if q.parent not in targets]})
        else:  # convert the summary in directory `rel`
            idf = target / "out.idf"
            idf.unlink(missing_ok=True)
            code, exc, err = _run_cli_real(["--convert", "IDF", str(target / "SimulationSummary.json")])
            out.append({"label": label, "kind": kind, "exit": code, "exc": exc, "stderr": err,
                        "idf_bytes": idf.stat().st_size if idf.exists() else None, "has_summary": (target / "SimulationSummary.json").exists()})
    return out


def _placement(ctx, tmp):
    """Where the results go, and what `--convert IDF` leaves behind — on real runs:
    exit 0 => the six result files sit directly in the directory that was given (fresh, nested fresh, pre-existing,
    re-used: then they are those of the later run) and nowhere else; `--convert IDF` exits 0 exactly when it wrote a
    non-empty out.idf next to the summary (U-tube and coaxial results)."""
    docs = dict(outcome_documents())
    utube = docs["feasible"]
    coax = json.loads(json.dumps(utube))
    coax["pipe"] = json.loads(json.dumps(cl.base_documents()[2][1]["pipe"]))          # the coaxial demo pipe
    coax["geometric_constraints"]["b"] = 6.0
    jobs = [
        ([("fresh-directory", "run", utube, "pl_a", None), ("second-run-into-the-same-directory", "run", coax, "pl_a", None),
          ("convert-IDF-coaxial-results", "convert", None, "pl_a", None)], str(tmp / "pj0")),
        ([("nested-fresh-directory", "run", utube, "pl_b/deeper/results", None), ("convert-IDF-u-tube-results", "convert", None, "pl_b/deeper/results", None)], str(tmp / "pj1")),
        ([("pre-existing-empty-directory", "run", utube, "pl_c", "mkdir")], str(tmp / "pj2")),
        ([("coaxial-fresh-directory", "run", coax, "pl_e", None), ("pre-existing-directory-coaxial", "run", coax, "pl_f/results", "mkdir")], str(tmp / "pj3")),
    ]
    res = [r for rs in core.pool_map(_placement_worker, jobs, workers=len(jobs)) for r in rs]
    by = {r["label"]: r for r in res}
    lines, order = [], []
    for r in res:
        if r["kind"] == "run":
            ok = r["listing"] is not None and all(f in r["listing"] for f in OUTPUT_FILES)
            lines.append(_model_cli(False, None, True, True, [] if ok else ["write_output_files"], cl.enc(coax if "coaxial" in r["label"] or r["label"].startswith("second") else utube)))
        else:
            lines.append(_model_cli(False, "IDF", False, not r["idf_bytes"], [], ["-"]))
        order.append(r["label"])
    out = ctx.driver(lines)
    for i, r in enumerate(res):
        label = r["label"]
        ctx.case(("placement", label), True, {"placement": label, "exit": r["exit"], "listing": r.get("listing"), "idf_bytes": r.get("idf_bytes")} if "pre-existing-empty" in label or "coaxial-results" in label else None)
        ctx.count(f"placement:{r['kind']}:exit{r['exit']}")
        replay = {"step": label, **{k: v for k, v in r.items() if k != "label"},
                  "inputs": "harness/c18.py _placement: the `feasible` near-square 12-month input of outcome_documents() (U-tube) and the same with the coaxial demo pipe"}
        if r["kind"] == "run":
            direct = r["listing"] is not None and all(f in r["listing"] for f in OUTPUT_FILES)
            stray = [q for q in (r["listing"] or []) if q not in OUTPUT_FILES]
            if r["exit"] == 0 and (not direct or stray or r["elsewhere"] or not r["all_fresh"]):
                why = ("the six result files are not directly in the directory given" if not direct else
                       "the directory given also holds " + str(stray) if stray else "result files were written elsewhere: " + str(r["elsewhere"]) if r["elsewhere"] else "the files in the directory are not those of this run")
                ctx.finding(f"outputs:{label}:exit0:{'missing' if not direct else 'misplaced'}",
                            f"`ghedesigner <input> <dir>` with {label}: exit status 0 but {why}; directory listing {r['listing']}, written elsewhere {r['elsewhere']}", replay)
            elif r["exit"] != 0:
                ctx.finding(f"outputs:{label}:exit{r['exit']}", f"`ghedesigner <input> <dir>` with {label} (feasible valid input) exited {r['exit']}: {r['exc']}", replay)
            if label == "second-run-into-the-same-directory" and r["exit"] == 0:
                ref = by.get("coaxial-fresh-directory", {}).get("facts")
                if ref is not None and r["facts"] != ref:
                    ctx.finding(f"outputs:{label}:stale-results", f"after a second run into the directory of the first, the summary there says {r['facts']} but the second input gives {ref}", replay)
            if out is not None:
                toks = out[i].split()
                if int(toks[1]) != r["exit"] or (toks[2] == "t") != direct:
                    _broken(ctx, "placement-correspondence", {"step": label, "impl_exit": r["exit"], "impl_listing": r["listing"], "model": " ".join(toks[:3])})
        else:
            converted = bool(r["idf_bytes"])
            if not r["has_summary"]:
                ctx.count("placement:convert-without-summary")
                continue
            if (r["exit"] == 0) != converted:
                ctx.finding(f"convert:{label}:exit{r['exit']}:{'idf' if converted else 'no-idf'}",
                            f"`ghedesigner --convert IDF <results>/SimulationSummary.json` ({label}): exit status {r['exit']} but out.idf "
                            f"{'was written (' + str(r['idf_bytes']) + ' bytes)' if converted else 'was not written'} (exception {r['exc']}; messages {r['stderr'].strip()[-120:]!r}); "
                            "success must be reported exactly when the conversion happened", replay)
            if label == "convert-IDF-u-tube-results" and not converted:
                ctx.finding(f"convert:{label}:no-idf", f"a U-tube result summary was not converted (exit {r['exit']}, {r['exc']})", replay)
            if out is not None and int(out[i].split()[1]) != r["exit"]:
                _broken(ctx, "convert-correspondence", {"step": label, "impl_exit": r["exit"], "idf_bytes": r["idf_bytes"], "model": out[i]})
    # the coaxial conversion once more as a real process
    if (tmp / "pj3" / "pl_e" / "SimulationSummary.json").exists():
        idf = tmp / "pj3" / "pl_e" / "out.idf"
        idf.unlink(missing_ok=True)
        code, so, se = _proc(["--convert", "IDF", str(tmp / "pj3" / "pl_e" / "SimulationSummary.json")], str(tmp))
        converted = idf.exists() and idf.stat().st_size > 0
        ctx.case(("placement", "process-convert-IDF-coaxial"), True)
        ctx.count(f"placement:process-convert:exit{code}")
        if (code == 0) != converted:
            ctx.finding(f"convert:process-coaxial-results:exit{code}:{'idf' if converted else 'no-idf'}",
                        f"real process `--convert IDF` on coaxial results: exit status {code}, out.idf written = {converted}", {"stdout": so[-200:], "stderr": se[-300:]})


# --------------------------------------------------------------------------------------------- real processes
def _proc(args, cwd):
    code = ("import sys; sys.path.insert(0, %r); from ghedesigner.manager import run_manager_from_cli; run_manager_from_cli()" % str(core.REPO))
    env = dict(os.environ, OMP_NUM_THREADS="1")
    r = subprocess.run([sys.executable, "-W", "ignore", "-c", code] + args, capture_output=True, text=True, cwd=cwd, env=env, timeout=900)
    return r.returncode, r.stdout[-400:], r.stderr[-600:]


def _proc_worker(job):
    label, args, cwd = job
    try:
        return (label,) + _proc(args, cwd)
    except subprocess.TimeoutExpired:
        return (label, None, "", "timeout")


def _processes(ctx, tmp):
    name, doc = cl.base_documents()[0]
    doc = json.loads(json.dumps(doc))
    doc["simulation"] = {"num_months": 12}
    doc["geometric_constraints"]["length"] = 60
    doc["design"].pop("max_boreholes", None)
    doc["design"].pop("continue_if_design_unmet", None)
    import ghelib

    doc["loads"]["ground_loads"] = [x * 0.25 for x in ghelib.atlanta_loads()]
    good = tmp / "p_good.json"
    _write(good, doc)
    bad_doc = dict(doc)
    bad_doc["design"] = dict(doc["design"], flow_type="SIDEWAYS")
    bad = tmp / "p_bad.json"
    _write(bad, bad_doc)
    short = dict(doc)
    short["loads"] = {"ground_loads": doc["loads"]["ground_loads"][:100]}
    shortp = tmp / "p_short_loads.json"
    _write(shortp, short)
    lower = json.loads(json.dumps(doc))
    lower["fluid"]["fluid_name"] = "water"
    lower["pipe"]["arrangement"] = "SingleUTube"
    lower["geometric_constraints"]["method"] = "nearSquare"
    lower["design"]["flow_type"] = "borehole"
    lowerp = tmp / "p_lower.json"
    _write(lowerp, lower)
    odocs = dict(outcome_documents())
    infp, infcp = tmp / "p_infeasible.json", tmp / "p_infeasible_continue.json"
    _write(infp, odocs["infeasible-loads-50x"])
    _write(infcp, odocs["infeasible-loads-50x-continue-true"])
    out1, out2 = tmp / "p_out1", tmp / "p_out2"
    jobs = [
        ("full-run", [str(good), str(out1)], str(tmp)),
        ("full-run-lower-case-names", [str(lowerp), str(out2)], str(tmp)),
        ("validate-only-valid", ["--validate-only", str(good)], str(tmp)),
        ("validate-only-invalid", ["--validate-only", str(bad)], str(tmp)),
        ("validate-only-100-loads", ["--validate-only", str(shortp)], str(tmp)),
        ("run-invalid", [str(bad), str(tmp / "p_out3")], str(tmp)),
        ("run-100-loads", [str(shortp), str(tmp / "p_out4")], str(tmp)),
        ("no-outdir", [str(good)], str(tmp)),
        ("convert-XYZ", ["--convert", "XYZ", str(good), str(tmp / "p_out5")], str(tmp)),
        ("nonexistent-input", [str(tmp / "nope.json"), str(tmp / "p_out6")], str(tmp)),
        ("unknown-option", ["--frobnicate", str(good)], str(tmp)),
        ("version", ["--version"], str(tmp)),
        ("infeasible", [str(infp), str(tmp / "p_out7")], str(tmp)),
        ("infeasible-continue", [str(infcp), str(tmp / "p_out8")], str(tmp)),
    ]
    res = core.pool_map(_proc_worker, jobs, workers=len(jobs))
    got = {r[0]: r for r in res}
    expect = {"full-run": 0, "full-run-lower-case-names": 0, "validate-only-valid": 0, "validate-only-invalid": 1, "validate-only-100-loads": 1, "run-invalid": 1,
              "run-100-loads": 1, "no-outdir": 1, "convert-XYZ": 1, "nonexistent-input": 2, "unknown-option": 2, "version": 0, "infeasible": 1, "infeasible-continue": 0}
    files = OUTPUT_FILES
    model_lines = {
        "full-run": _model_cli(False, None, True, True, [], cl.enc(cl.compress_loads(doc))),
        "full-run-lower-case-names": _model_cli(False, None, True, True, [], cl.enc(cl.compress_loads(lower))),
        "validate-only-valid": _model_cli(True, None, False, True, [], cl.enc(cl.compress_loads(doc))),
        "validate-only-invalid": _model_cli(True, None, False, True, [], cl.enc(cl.compress_loads(bad_doc))),
        "validate-only-100-loads": _model_cli(True, None, False, True, [], cl.enc(short)),
        "run-invalid": _model_cli(False, None, True, True, [], cl.enc(cl.compress_loads(bad_doc))),
        "run-100-loads": _model_cli(False, None, True, True, [], cl.enc(short)),
        "no-outdir": _model_cli(False, None, False, True, [], cl.enc(cl.compress_loads(doc))),
        "convert-XYZ": _model_cli(False, "XYZ", True, True, [], cl.enc(cl.compress_loads(doc))),
        "nonexistent-input": "cli usage", "unknown-option": "cli usage", "version": "cli eager version",
        "infeasible": _model_cli(False, None, True, True, ["find_design"], cl.enc(odocs["infeasible-loads-50x"])),
        "infeasible-continue": _model_cli(False, None, True, True, [], cl.enc(odocs["infeasible-loads-50x-continue-true"])),
    }
    labels = list(model_lines)
    out = ctx.driver([model_lines[l] for l in labels])
    for i, label in enumerate(labels):
        _, code, so, se = got[label]
        ctx.case(("process", label), True, {"process": label, "exit": code})
        ctx.count(f"process-exit{code}")
        if code is None:
            ctx.infra(f"process {label} timed out")
            continue
        outdir = {"full-run": out1, "full-run-lower-case-names": out2, "infeasible": tmp / "p_out7", "infeasible-continue": tmp / "p_out8"}.get(label)
        wrote = outdir is not None and all((outdir / f).exists() for f in files)
        if outdir is not None and (code == 0) != wrote:
            ctx.finding(f"exit:process:{label}:exit{code}:{'outputs' if wrote else 'no-outputs'}",
                        f"real process `{label}` (valid input, output directory given) exited {code} with output files written = {wrote}", {"process": label, "stderr": se[-300:]})
            continue
        replay = {"process": label, "stderr": se[-300:]}
        if code != expect[label] or (label.startswith("full-run") and not wrote):
            if label.startswith("full-run") and code != 0 and "Error" in se and "validation" not in se.lower():
                # the design itself failed on this machine: not an exit-status question
                ctx.count("process-design-run-failed")
                ctx.extra.setdefault("process_design_failures", []).append(se[-200:])
                if code == 0:
                    ctx.finding(f"exit:process:{label}:exit0-without-outputs", f"{label}: exit 0 but outputs missing", replay)
                continue
            ctx.finding(f"exit:process:{label}:exit{code}", f"real process `{label}` exited {code} (outputs written: {wrote}), expected {expect[label]}", replay)
        if out is not None:
            toks = out[i].split()
            if int(toks[1]) != code or ((toks[2] == "t") != wrote and outdir is not None):
                _broken(ctx, "process-correspondence", {"process": label, "impl_exit": code, "impl_wrote": wrote, "model": " ".join(toks[:3])})
    # --convert IDF on the results of the full run (results summary + Gfunction.csv next to it), and where nothing can be converted
    if (out1 / "SimulationSummary.json").exists():
        for label, path, idf_raises in (("convert-IDF-on-results", out1 / "SimulationSummary.json", False), ("convert-IDF-on-input", good, True)):
            code, so, se = _proc(["--convert", "IDF", str(path)], str(tmp))
            ctx.case(("process", label), True)
            ctx.count(f"process-exit{code}")
            m = ctx.driver([_model_cli(False, "IDF", False, idf_raises, [], ["-"])])
            if (code == 0) != (not idf_raises):
                ctx.finding(f"exit:process:{label}:exit{code}", f"`--convert IDF` {label}: exit {code}", {"process": label, "stderr": se[-300:]})
            if m is not None and int(m[0].split()[1]) != code:
                _broken(ctx, "process-correspondence", {"process": label, "impl_exit": code, "model": m[0]})
