import sys; sys.path.insert(0,'/verif/harness')
import ghelib, time, traceback
from multiprocessing import Pool
LOT=[[5,5],[31,7],[27,26],[6,22]]
def run(scale):
    cfg=dict(phys=ghelib.default_physics(), pipe='SINGLEUTUBE', loads=[x*scale for x in ghelib.atlanta_loads()], months=12,
             max_eft=35.0,min_eft=5.0,max_h=135.0,min_h=60.0, flow=0.5,
             geom=('ROWWISE',None,10.0,5.0,1.0,10.0,0.0,10.0,LOT,[]))
    try:
        with ghelib.quiet():
            m=ghelib.build_manager(cfg); m.find_design()
        return scale,'ok',len(m._search.selected_coordinates), m._search.ghe.bhe.b.H
    except Exception as e:
        return scale,type(e).__name__,str(e)[:80], traceback.format_exc().splitlines()[-3]
if __name__=='__main__':
    t=time.time()
    scales=[0.09,0.095,0.1,0.102]
    with Pool(16) as p:
        for r in p.map(run,scales): print(r)
    print(time.time()-t)
